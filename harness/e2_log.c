/* the log sub-command is served by the conf fork server (events L and M): see e2_conf.c */
#include "src/common.h"
int e2_conf_main(int argc, char **argv);
int e2_log_main(int argc, char **argv) { return e2_conf_main(argc, argv); }
