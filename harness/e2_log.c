#include "src/common.h"
int e2_log_main(int argc, char **argv) { (void)argc; (void)argv; return 2; }
