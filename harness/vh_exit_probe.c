/* vh_exit_probe.c - linked into the daemon executable of the harness build only.
 * A destructor of the *executable* runs after atexit(call_exit_funcs), i.e. after every module
 * destructor and exit function: it reports how much heap is still allocated, which the checks compare
 * with the figure for the empty history (C10). */
#include <stdio.h>
#include <stdlib.h>
#include <unistd.h>
#include <string.h>
size_t __sanitizer_get_current_allocated_bytes(void); /* libasan; gcc ships no header for it */

__attribute__((destructor)) static void vh_exit_probe(void)
{
    const char *fd_s = getenv("VH_EXIT_FD");
    char buf[64];
    int n;
    if (!fd_s) return;
    n = snprintf(buf, sizeof(buf), "EXITPROBE %zu\n", __sanitizer_get_current_allocated_bytes());
    if (write(atoi(fd_s), buf, n) < 0) {}
}
