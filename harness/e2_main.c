/* core_vh - engine E2: the library layer (set, address code, config, log) driven directly.
 * Links the repository's src/*.c (minus main.c) and modules/iauth_misc.c unmodified.
 */
#include "src/common.h"

struct event_base *ev_base;
struct evdns_base *ev_dns;
int clean_exit;

int e2_set_main(int argc, char **argv);
int e2_addr_main(int argc, char **argv);
int e2_conf_main(int argc, char **argv);
int e2_log_main(int argc, char **argv);

/* UBSan reports are counted, not fatal (see DESIGN 3): they go to stderr, which the Python side scans. */
const char *__ubsan_default_options(void) { return "print_stacktrace=0:halt_on_error=0"; }
const char *__asan_default_options(void) { return "detect_leaks=1:exitcode=86:abort_on_error=0:allocator_may_return_null=1"; }

int main(int argc, char **argv)
{
    if (argc < 2) {
        fprintf(stderr, "usage: core_vh set|addr|conf|log ...\n");
        return 2;
    }
    ctype_init();
    if (!strcmp(argv[1], "set"))
        return e2_set_main(argc - 1, argv + 1);
    if (!strcmp(argv[1], "addr"))
        return e2_addr_main(argc - 1, argv + 1);
    if (!strcmp(argv[1], "conf"))
        return e2_conf_main(argc - 1, argv + 1);
    if (!strcmp(argv[1], "log"))
        return e2_log_main(argc - 1, argv + 1);
    fprintf(stderr, "unknown sub-command %s\n", argv[1]);
    return 2;
}
