/* wrap_core.c - the unmodified modules/iauth_core.c plus accessors for engine E1.
 * Built as mods-wrapped/iauth.so; nothing in the repository is changed.
 */
#include "modules/iauth_core.c"
#include "vh_json.h"

/* One read() + line dispatch, exactly what the event loop would call when fd 0 is readable. */
void vh_core_read(void)
{
    iauth_read(STDIN_FILENO, EV_READ, iauth_in);
}

int vh_core_started(void)
{
    return BITSET_GET(iauth_flags, IAUTH_GOT_HOSTNAME) != 0;
}

size_t vh_core_inbuf_len(void)
{
    return evbuffer_get_length(iauth_in);
}

/* The callback of the per-request timers, learnt from the events themselves (not from the name or signature of the daemon's handler, which a refactoring
 * may change): whatever callback a live request's timer event carries. */
static event_callback_fn vh_req_timer_cb;

static void vh_learn_timer_cb(void)
{
    struct set_node *n;
    for (n = set_first(iauth_reqs); n; n = set_next(n)) {
        struct iauth_request *r = set_node_data(n);
        if (r->timeout)
            vh_req_timer_cb = event_get_callback(r->timeout);
    }
}

/* Fires the request timer of client `id` now, as libevent's one-shot timer would: the event is
 * removed from the timer heap first, then its callback runs.  Returns 0 if no timer is pending. */
int vh_core_fire_timeout(int id)
{
    struct iauth_request *req = set_find(iauth_reqs, &id);
    event_callback_fn cb;
    void *arg;
    if (!req || !req->timeout || !evtimer_pending(req->timeout, NULL))
        return 0;
    cb = event_get_callback(req->timeout);
    arg = event_get_callback_arg(req->timeout);
    vh_req_timer_cb = cb;
    event_del(req->timeout);
    cb(-1, EV_TIMEOUT, arg);
    return 1;
}

struct iauth_request *vh_core_first_req(void)
{
    struct set_node *n = set_first(iauth_reqs);
    return n ? set_node_data(n) : NULL;
}

struct iauth_request *vh_core_next_req(struct iauth_request *req)
{
    struct set_node *n = set_next(set_node(req));
    return n ? set_node_data(n) : NULL;
}

struct vh_timer_audit { int n; int orphan; };

static int vh_timer_cb(const struct event_base *base, const struct event *ev, void *arg)
{
    struct vh_timer_audit *a = arg;
    (void)base;
    if (vh_req_timer_cb && event_get_callback(ev) == vh_req_timer_cb) {
        struct set_node *n;
        int found = 0;
        a->n++;
        for (n = set_first(iauth_reqs); n; n = set_next(n))
            if (set_node_data(n) == event_get_callback_arg(ev)) {
                struct iauth_request *r = set_node_data(n);
                found = (r->timeout == ev);
            }
        if (!found) a->orphan++;
    }
    return 0;
}

/* Fires a pending request timer that belongs to NO live request (the audit's "orphan"), as libevent eventually would.
 * On a correct tree there never is one, so this event is never enabled; on a broken one the explorer gets to see what the
 * stale timer does (a verdict for a client that is gone, a use-after-free under ASan).  Returns 0 if there is none. */
static int vh_orphan_cb(const struct event_base *base, const struct event *ev, void *arg)
{
    const struct event **out = arg;
    (void)base;
    if (vh_req_timer_cb && event_get_callback(ev) == vh_req_timer_cb && !*out) {
        struct set_node *n;
        int found = 0;
        for (n = set_first(iauth_reqs); n; n = set_next(n))
            if (set_node_data(n) == event_get_callback_arg(ev) && ((struct iauth_request *)set_node_data(n))->timeout == ev)
                found = 1;
        if (!found) *out = ev;
    }
    return 0;
}

int vh_core_fire_orphan(void)
{
    const struct event *ev = NULL;
    event_callback_fn cb;
    void *arg;
    vh_learn_timer_cb();
    event_base_foreach_event(ev_base, vh_orphan_cb, &ev);
    if (!ev)
        return 0;
    cb = event_get_callback(ev);
    arg = event_get_callback_arg(ev);
    event_del((struct event *)ev);
    cb(-1, EV_TIMEOUT, arg);
    return 1;
}

/* structural audit of the request table (order, links, count) */
static const char *vh_table_audit(void)
{
    struct set_node *n, *prev = NULL;
    unsigned int cnt = 0;
    long long last = -(1LL << 40);
    for (n = set_first(iauth_reqs); n; n = set_next(n)) {
        struct iauth_request *r = set_node_data(n);
        if (cnt++ > set_size(iauth_reqs)) return "list longer than count";
        if ((long long)r->client <= last) return "ids not strictly increasing";
        if (set_prev(n) != prev) return "prev link broken";
        last = r->client; prev = n;
    }
    if (cnt != set_size(iauth_reqs)) return "count mismatch";
    return "ok";
}

void vh_core_dump_head(FILE *f)
{
    struct vh_timer_audit a = { 0, 0 };
    vh_learn_timer_cb();
    event_base_foreach_event(ev_base, vh_timer_cb, &a);
    fprintf(f, "{\"t\":\"core\",\"serial\":%u,\"nreq\":%u,\"allocs\":%lu,\"frees\":%lu,\"datafrees\":%lu,\"inbuf\":%zu,"
               "\"need\":%u,\"policies\":%u,\"timeout\":%u,\"timers\":%d,\"orphan_timers\":%d,\"table\":\"%s\",\"clean_exit\":%d}\n",
            iauth_serial, set_size(iauth_reqs), stats.n_req_allocs, stats.n_req_frees, stats.n_req_data_frees,
            evbuffer_get_length(iauth_in), (unsigned)iauth_flags.bits[0], (unsigned)iauth_policies.bits[0],
            iauth_conf_timeout->parsed.p_interval, a.n, a.orphan, vh_table_audit(), clean_exit);
}

void vh_core_dump_req(FILE *f, struct iauth_request *r)
{
    int k;
    fprintf(f, "{\"t\":\"req\",\"id\":%d,\"serial\":%u,\"flags\":%u,\"holds\":%d,\"soft\":%d,\"state\":%d,\"port\":%u,\"lport\":%u,\"timer\":%d,\"ndata\":%u",
            r->client, r->serial, (unsigned)r->flags.bits[0], r->holds, r->soft_holds, (int)r->state,
            r->remote_port, r->local_port,
            r->timeout ? (evtimer_pending(r->timeout, NULL) ? 1 : 0) : -1, set_size(&r->data));
    VH_JS(f, "host", r->hostname); VH_JS(f, "cliuser", r->cli_username); VH_JS(f, "authuser", r->auth_username);
    VH_JS(f, "nick", r->nickname); VH_JS(f, "real", r->realname); VH_JS(f, "acct", r->account);
    VH_JS(f, "class", r->class); VH_JS(f, "addr", r->text_addr);
    {
        /* the routing tag as the daemon itself renders it (the harness echoes it back instead of assuming a format) */
        char tag[64];
        iauth_routing(r, tag, sizeof(tag));
        VH_JS(f, "tag", tag);
    }
    fputs(",\"raddr\":\"", f);
    for (k = 0; k < 16; ++k) fprintf(f, "%02x", r->remote_addr.in6_8[k]);
    fputs("\",\"laddr\":\"", f);
    for (k = 0; k < 16; ++k) fprintf(f, "%02x", r->local_addr.in6_8[k]);
    fputs("\"}\n", f);
}
