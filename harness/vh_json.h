/* tiny JSON string writer shared by the wrapper translation units */
#ifndef VH_JSON_H
#define VH_JSON_H
#include <stdio.h>
static void vh_jstr(FILE *f, const char *s, size_t max)
{
    size_t i;
    fputc('"', f);
    for (i = 0; s && i < max && s[i]; ++i) {
        unsigned char c = (unsigned char)s[i];
        if (c == '"' || c == '\\') { fputc('\\', f); fputc(c, f); }
        else if (c < 0x20 || c >= 0x7f) fprintf(f, "\\u%04x", c);
        else fputc(c, f);
    }
    fputc('"', f);
}
#define VH_JS(f, name, s) do { fprintf(f, ",\"%s\":", name); vh_jstr(f, s, sizeof(s)); } while (0)
#define VH_JP(f, name, s) do { fprintf(f, ",\"%s\":", name); if (s) vh_jstr(f, s, 100000); else fputs("null", f); } while (0)
#endif
