/* e2_chain.c - the real splay-tree set on long degenerate chains (property C19).
 *
 * The breadth-first search of e2_set.c covers every tree shape over 7 keys; what it cannot reach is depth.  A splay tree
 * built from sorted input is a chain as deep as the set is large, and the operations at its far end walk (and rotate) the
 * whole chain.  This enumerates, for EVERY size n = 1..maxn and every insertion order of a small family (ascending,
 * descending, outside-in, inside-out, ascending then one access at the far end), every operation of the menu below at every
 * one of a set of positions (both ends, next to both ends, the middle, every gap next to them, below and above everything),
 * each from a freshly rebuilt structure, and compares with the mathematical set {0, 2, 4, ..., 2(n-1)}:
 *   find / lower at the position; insert of an equal key (replacement) or of a new key in a gap; remove with and without
 *   disposal; then the full audit (search-tree order, first/next/prev lists, size, membership of every key) and the
 *   cleanup ledger (exactly once for what was replaced / removed, never for anything else); finally clear with disposal.
 *
 * usage: core_vh set chains <maxn> [embedded]        output: one JSON line per violation, then a summary line
 */
#include "src/common.h"

struct celem { int key; int serial; };

static int *cleaned;         /* cleanup calls per serial */
static int ncleaned_total;
static int next_ser;
static int cap_ser;

static void celem_cleanup(void *p)
{
    struct celem *e = p;
    if (e->serial >= 0 && e->serial < cap_ser)
        cleaned[e->serial]++;
    ncleaned_total++;
}

static char vbuf[512];
static int vset;
static void cfail(const char *fmt, ...)
{
    va_list ap;
    if (vset) return;
    va_start(ap, fmt);
    vsnprintf(vbuf, sizeof(vbuf), fmt, ap);
    va_end(ap);
    vset = 1;
}

static struct set *cmake(int embedded)
{
    struct set *s;
    if (!embedded)
        return set_alloc(set_compare_int, celem_cleanup);
    s = calloc(1, sizeof(*s));
    s->compare = set_compare_int;
    s->cleanup = celem_cleanup;
    return s;
}

static struct set_node *cnode(int key)
{
    struct set_node *n = set_node_alloc(sizeof(struct celem));
    struct celem *e;
    memset(n, 0xa5, sizeof(*n));
    e = set_node_data(n);
    e->key = key;
    e->serial = next_ser++;
    return n;
}

/* the order in which the n keys 0,2,..,2(n-1) are inserted */
enum { ASC, DESC, OUTSIDE_IN, INSIDE_OUT, ASC_TOUCH_FIRST, NSHAPES };
static const char *shape_name[] = { "ascending", "descending", "outside-in", "inside-out", "ascending+find(first)" };

static int order_key(int shape, int n, int i)
{
    switch (shape) {
    case ASC: case ASC_TOUCH_FIRST: return 2 * i;
    case DESC: return 2 * (n - 1 - i);
    case OUTSIDE_IN: return (i & 1) ? 2 * (n - 1 - i / 2) : 2 * (i / 2);
    default: { /* inside-out */
        int mid = n / 2, d = (i + 1) / 2;
        int k = (i & 1) ? mid - d : mid + d;
        if (k < 0 || k >= n) { /* one side exhausted */ k = (mid + d < n) ? mid + d : mid - d; }
        return 2 * k;
    }
    }
}

/* reference: present[] over keys 0..2n (even = original keys, odd = gap keys), serial of the live instance */
struct cref { char *present; int *serial; int nkeys; int count; };

static long tree_nodes;
static int tree_walk_check(struct set_node *root, int nmax)
{
    /* iterative in-order walk with an explicit stack; checks strict key order */
    struct set_node **stack = malloc(sizeof(*stack) * (nmax + 2));
    struct set_node *cur = root;
    int sp = 0, last = INT_MIN, first = 1, cnt = 0, ok = 1;
    while ((cur || sp) && ok) {
        while (cur) {
            if (sp > nmax) { cfail("audit: tree deeper than its size (cycle?)"); ok = 0; break; }
            stack[sp++] = cur;
            cur = cur->l;
        }
        if (!ok) break;
        cur = stack[--sp];
        {
            int k = ((struct celem *)set_node_data(cur))->key;
            if (!first && k <= last) { cfail("audit: search-tree order broken at key %d after %d", k, last); ok = 0; break; }
            first = 0; last = k;
            if (++cnt > nmax) { cfail("audit: tree holds more than %d nodes", nmax); ok = 0; break; }
        }
        cur = cur->r;
    }
    free(stack);
    tree_nodes = cnt;
    return ok;
}

static void caudit(struct set *s, struct cref *r, const char *when)
{
    struct set_node *n, *last = NULL;
    int k = 0, cnt = 0;
    if (vset) return;
    if ((int)set_size(s) != r->count) { cfail("%s: set_size()=%u, the set holds %d keys", when, set_size(s), r->count); return; }
    if (!tree_walk_check(s->root, r->count + 1)) return;
    if (tree_nodes != r->count) { cfail("%s: tree holds %ld nodes, the set %d keys", when, tree_nodes, r->count); return; }
    for (n = set_first(s); n; n = set_next(n)) {
        struct celem *e = set_node_data(n);
        while (k < r->nkeys && !r->present[k]) k++;
        if (k >= r->nkeys) { cfail("%s: first/next list has extra key %d", when, e->key); return; }
        if (e->key != k) { cfail("%s: first/next list gives key %d where the set has %d", when, e->key, k); return; }
        if (e->serial != r->serial[k]) { cfail("%s: key %d is held by a stale element instance", when, k); return; }
        if (set_prev(n) != last) { cfail("%s: prev link of key %d is wrong", when, k); return; }
        last = n; k++; cnt++;
        if (cnt > r->count) { cfail("%s: first/next list longer than the set", when); return; }
    }
    if (cnt != r->count) { cfail("%s: first/next list has %d items, the set %d", when, cnt, r->count); return; }
}

static struct set *cbuild(int embedded, int shape, int n, struct cref *r)
{
    struct set *s = cmake(embedded);
    int i;
    memset(r->present, 0, r->nkeys);
    r->count = 0;
    next_ser = 0;
    for (i = 0; i < n; ++i) {
        int key = order_key(shape, n, i);
        struct set_node *nd = cnode(key);
        r->serial[key] = ((struct celem *)set_node_data(nd))->serial;
        set_insert(s, nd);
        if (!r->present[key]) { r->present[key] = 1; r->count++; }
    }
    if (shape == ASC_TOUCH_FIRST) {
        int zero = 0;
        (void)set_find(s, &zero);
    }
    memset(cleaned, 0, sizeof(int) * cap_ser);
    ncleaned_total = 0;
    return s;
}

static int ref_lower_key(struct cref *r, int key)
{
    int k;
    for (k = key < 0 ? 0 : key; k < r->nkeys; ++k)
        if (r->present[k]) return k;
    return -1;
}

enum { C_FIND, C_LOWER, C_INSERT, C_REMOVE_D, C_REMOVE_ND, NCOPS };
static const char *cop_name[] = { "find", "lower", "insert", "remove", "remove(no dispose)" };

int e2_chain_main(int maxn, int embedded)
{
    struct cref r;
    long runs = 0, nviol = 0, checks = 0;
    int n, shape, op, pi;
    if (maxn < 1) maxn = 1;
    r.nkeys = 2 * maxn + 2;
    r.present = malloc(r.nkeys);
    r.serial = malloc(sizeof(int) * r.nkeys);
    cap_ser = maxn + 8;
    cleaned = calloc(cap_ser, sizeof(int));
    for (n = 1; n <= maxn; ++n) {
        /* positions: key values (even = present after the build, odd = a gap, -1 / 2n = outside) */
        int pos[16], npos = 0, mid = 2 * (n / 2);
        int cand[] = { -1, 0, 1, 2, 3, mid - 1, mid, mid + 1, 2 * (n - 1) - 2, 2 * (n - 1) - 1, 2 * (n - 1), 2 * (n - 1) + 1 };
        unsigned ci, cj;
        for (ci = 0; ci < sizeof(cand) / sizeof(cand[0]); ++ci) {
            int dup = 0;
            if (cand[ci] < -1 || cand[ci] > 2 * (n - 1) + 1) continue;
            for (cj = 0; cj < (unsigned)npos; ++cj) if (pos[cj] == cand[ci]) dup = 1;
            if (!dup) pos[npos++] = cand[ci];
        }
        for (shape = 0; shape < NSHAPES; ++shape) {
            for (op = 0; op < NCOPS; ++op) {
                for (pi = 0; pi < npos; ++pi) {
                    int key = pos[pi], was, oldser = -1, exp_clean = 0;
                    struct set *s;
                    char when[96];
                    if (key < 0 && op == C_INSERT) continue; /* keys are indices into the reference */
                    vset = 0;
                    s = cbuild(embedded, shape, n, &r);
                    snprintf(when, sizeof(when), "%s(%d)", cop_name[op], key);
                    caudit(s, &r, "after the build");
                    was = (key >= 0 && key < r.nkeys) ? r.present[key] : 0;
                    if (was) oldser = r.serial[key];
                    if (!vset) switch (op) {
                    case C_FIND: {
                        struct celem *e = set_find(s, &key);
                        if (was && !e) cfail("set_find(%d) returned NULL, but %d is in the set", key, key);
                        else if (was && (e->key != key || e->serial != oldser)) cfail("set_find(%d) returned key %d", key, e->key);
                        else if (!was && e) cfail("set_find(%d) returned key %d, but %d is not in the set", key, e->key, key);
                        break;
                    }
                    case C_LOWER: {
                        struct set_node *nd = set_lower(s, &key);
                        int want = ref_lower_key(&r, key);
                        if (want < 0 && nd) cfail("set_lower(%d) returned key %d, expected none", key, ((struct celem *)set_node_data(nd))->key);
                        else if (want >= 0 && !nd) cfail("set_lower(%d) returned none, expected %d", key, want);
                        else if (want >= 0 && ((struct celem *)set_node_data(nd))->key != want) cfail("set_lower(%d) returned key %d, expected %d", key, ((struct celem *)set_node_data(nd))->key, want);
                        break;
                    }
                    case C_INSERT: {
                        struct set_node *nd = cnode(key);
                        int ser = ((struct celem *)set_node_data(nd))->serial;
                        set_insert(s, nd);
                        if (was) exp_clean = 1; else { r.present[key] = 1; r.count++; }
                        r.serial[key] = ser;
                        if (was && cleaned[oldser] != 1) cfail("insert of key %d over an equal key: cleanup ran %d times on the replaced element", key, cleaned[oldser]);
                        else if (cleaned[ser]) cfail("insert of key %d over an equal key: cleanup ran on the element just inserted", key);
                        break;
                    }
                    case C_REMOVE_D: case C_REMOVE_ND: {
                        struct set_node *victim = NULL;
                        int res;
                        if (was && op == C_REMOVE_ND) { struct celem *e = set_find(s, &key); victim = e ? set_node(e) : NULL; }
                        res = set_remove(s, &key, op == C_REMOVE_ND);
                        if (!!res != !!was) cfail("set_remove(%d) returned %d, expected %d", key, res, was);
                        if (was) {
                            r.present[key] = 0; r.count--;
                            if (op == C_REMOVE_D) { exp_clean = 1; if (!vset && cleaned[oldser] != 1) cfail("set_remove(%d): cleanup ran %d times on the removed element", key, cleaned[oldser]); }
                            else if (victim && !vset) free(victim);
                        }
                        break;
                    }
                    }
                    if (!vset && ncleaned_total != exp_clean) cfail("%s: cleanup ran %d times in total, expected %d", when, ncleaned_total, exp_clean);
                    caudit(s, &r, when);
                    /* every key of the set is still found */
                    if (!vset) {
                        int k;
                        for (k = 0; k < r.nkeys && !vset; ++k) {
                            struct celem *e = set_find(s, &k);
                            if (r.present[k] && !e) cfail("after %s: set_find(%d) returned NULL, but %d is in the set", when, k, k);
                            else if (!r.present[k] && e) cfail("after %s: set_find(%d) found a key that is not in the set", when, k);
                            checks++;
                        }
                        caudit(s, &r, "after finding every key");
                    }
                    runs++;
                    if (vset) {
                        if (nviol < 20)
                            printf("{\"violation\":{\"domain\":\"chains%s\",\"n\":%d,\"shape\":\"%s\",\"op\":\"%s\",\"key\":%d,\"detail\":\"%s\"}}\n",
                                   embedded ? "@embedded" : "", n, shape_name[shape], cop_name[op], key, vbuf);
                        nviol++;
                        continue; /* leak the damaged structure */
                    }
                    {
                        int before = ncleaned_total, left = r.count;
                        set_clear(s, 0);
                        if (ncleaned_total - before != left) {
                            if (nviol < 20)
                                printf("{\"violation\":{\"domain\":\"chains%s\",\"n\":%d,\"shape\":\"%s\",\"op\":\"clear\",\"key\":%d,\"detail\":\"set_clear ran cleanup %d times for %d elements\"}}\n",
                                       embedded ? "@embedded" : "", n, shape_name[shape], key, ncleaned_total - before, left);
                            nviol++;
                        }
                        free(s);
                    }
                }
            }
        }
    }
    printf("{\"summary\":{\"domain\":\"chains%s\",\"max_n\":%d,\"shapes\":%d,\"runs\":%ld,\"membership_checks\":%ld,\"violations\":%ld}}\n", embedded ? "@embedded" : "", maxn, NSHAPES, runs, checks, nviol);
    fflush(stdout);
    if (nviol) _exit(1);
    free(r.present); free(r.serial); free(cleaned);
    return 0;
}


/* ---- every operation sequence up to a depth, WITHOUT merging states ---------------------------------------------------
 * The breadth-first search of e2_set.c merges histories that reach the same tree shape, which is sound only if the shape is
 * all the state there is.  This enumeration does not merge: every sequence of <= depth operations over nkeys keys - insert,
 * remove, find, lower, iterate (first/next walk and prev links), clear - is replayed from an empty set, the structure is
 * NOT inspected between the operations (an audit walks the set with set_first/set_next and would itself be an "iterate"),
 * each operation's own result is compared with the mathematical set, and the full audit runs after the last one.  State
 * kept outside the tree (a remembered first element, a cached lookup) cannot hide here.
 * usage: core_vh set seqs <nkeys> <depth> [embedded]
 */
enum { S_INSERT, S_REMOVE, S_FIND, S_LOWER, S_ITER, S_CLEAR, S_NKINDS };

static long seq_runs, seq_viol;

static void seq_report(const char *dom, const int *ops, int n, int nkeys)
{
    static const char *nm[] = { "insert", "remove", "find", "lower", "iterate", "clear" };
    int i;
    if (seq_viol++ >= 20) return;
    printf("{\"violation\":{\"domain\":\"%s\",\"n\":%d,\"shape\":\"", dom, nkeys);
    for (i = 0; i < n; ++i) {
        int kind = ops[i] / 16, key = ops[i] % 16;
        if (kind == S_ITER || kind == S_CLEAR) printf("%s%s", i ? " " : "", nm[kind]);
        else printf("%s%s(%d)", i ? " " : "", nm[kind], key);
    }
    printf("\",\"op\":\"sequence\",\"key\":%d,\"detail\":\"%s\"}}\n", n, vbuf);
}

static void seq_run(const int *ops, int n, int nkeys, int embedded, struct cref *r)
{
    struct set *s = cmake(embedded);
    int i, k;
    memset(r->present, 0, r->nkeys);
    r->count = 0;
    next_ser = 0;
    memset(cleaned, 0, sizeof(int) * cap_ser);
    ncleaned_total = 0;
    vset = 0;
    for (i = 0; i < n && !vset; ++i) {
        int kind = ops[i] / 16, key = ops[i] % 16, before = ncleaned_total, exp = 0;
        switch (kind) {
        case S_INSERT: {
            struct set_node *nd = cnode(key);
            int old = r->present[key] ? r->serial[key] : -1;
            set_insert(s, nd);
            if (old >= 0) { exp = 1; if (cleaned[old] != 1) cfail("step %d insert(%d): cleanup ran %d times on the replaced element", i, key, cleaned[old]); }
            else { r->present[key] = 1; r->count++; }
            r->serial[key] = ((struct celem *)set_node_data(nd))->serial;
            break;
        }
        case S_REMOVE: {
            int was = r->present[key], old = was ? r->serial[key] : -1;
            int res = set_remove(s, &key, 0);
            if (!!res != !!was) cfail("step %d remove(%d) returned %d, expected %d", i, key, res, was);
            if (was) { exp = 1; r->present[key] = 0; r->count--; if (!vset && cleaned[old] != 1) cfail("step %d remove(%d): cleanup ran %d times on the removed element", i, key, cleaned[old]); }
            break;
        }
        case S_FIND: {
            struct celem *e = set_find(s, &key);
            if (r->present[key] && (!e || e->serial != r->serial[key])) cfail("step %d find(%d) did not return the element of the set", i, key);
            else if (!r->present[key] && e) cfail("step %d find(%d) returned an element, the key is not in the set", i, key);
            break;
        }
        case S_LOWER: {
            struct set_node *nd = set_lower(s, &key);
            int want = ref_lower_key(r, key);
            if ((want < 0) != (nd == NULL) || (nd && ((struct celem *)set_node_data(nd))->key != want))
                cfail("step %d lower(%d) returned %d, expected %d", i, key, nd ? ((struct celem *)set_node_data(nd))->key : -1, want);
            break;
        }
        case S_ITER: {
            char when[32];
            snprintf(when, sizeof(when), "step %d iterate", i);
            caudit(s, r, when);
            break;
        }
        case S_CLEAR: {
            exp = r->count;
            set_clear(s, 0);
            for (k = 0; k < r->nkeys; ++k) r->present[k] = 0;
            r->count = 0;
            break;
        }
        }
        if (!vset && (int)set_size(s) != r->count) cfail("step %d: set_size()=%u, the set holds %d keys", i, set_size(s), r->count);
        if (!vset && ncleaned_total - before != exp) cfail("step %d: cleanup ran %d times, expected %d", i, ncleaned_total - before, exp);
    }
    if (!vset) caudit(s, r, "after the last operation");
    seq_runs++;
    if (vset) { seq_report(embedded ? "seqs@embedded" : "seqs", ops, n, nkeys); return; }   /* leak the damaged structure */
    set_clear(s, 0);
    free(s);
}

static void seq_dfs(int *ops, int n, int depth, int nkeys, int embedded, struct cref *r)
{
    int kind, key;
    if (n > 0) seq_run(ops, n, nkeys, embedded, r);
    if (n == depth) return;
    for (kind = 0; kind < S_NKINDS; ++kind)
        for (key = 0; key < ((kind == S_ITER || kind == S_CLEAR) ? 1 : nkeys); ++key) {
            /* two iterations in a row, or a clear of what was just cleared, add nothing */
            if (n > 0 && (kind == S_ITER || kind == S_CLEAR) && ops[n - 1] / 16 == kind) continue;
            ops[n] = kind * 16 + key;
            seq_dfs(ops, n + 1, depth, nkeys, embedded, r);
        }
}

int e2_seq_main(int nkeys, int depth, int embedded)
{
    struct cref r;
    int ops[16];
    if (nkeys < 1) nkeys = 1;
    if (nkeys > 8) nkeys = 8;
    if (depth > 12) depth = 12;
    r.nkeys = nkeys + 1;
    r.present = malloc(r.nkeys);
    r.serial = malloc(sizeof(int) * r.nkeys);
    cap_ser = depth + 8;
    cleaned = calloc(cap_ser, sizeof(int));
    seq_runs = seq_viol = 0;
    seq_dfs(ops, 0, depth, nkeys, embedded, &r);
    printf("{\"summary\":{\"domain\":\"seqs%s\",\"keys\":%d,\"depth\":%d,\"runs\":%ld,\"violations\":%ld}}\n", embedded ? "@embedded" : "", nkeys, depth, seq_runs, seq_viol);
    fflush(stdout);
    if (seq_viol) _exit(1);
    free(r.present); free(r.serial); free(cleaned);
    return 0;
}
