/* wrap_class.c - the unmodified modules/iauth_class.c plus accessors for engine E1. */
#include "modules/iauth_class.c"
#include "vh_json.h"

void vh_class_dump(FILE *f)
{
    unsigned int ii, k;
    for (ii = 0; ii < conf.rules.used; ++ii) {
        struct iauth_class_rule *r = &conf.rules.vec[ii];
        fprintf(f, "{\"t\":\"rule\",\"idx\":%u,\"bits\":%u,\"assigned\":%u,\"trust\":%d", ii, r->address_bits, r->assigned, r->trust_username);
        VH_JP(f, "name", r->name); VH_JP(f, "class", r->class); VH_JP(f, "account", r->account);
        VH_JP(f, "username", r->username); VH_JP(f, "hostname", r->hostname); VH_JP(f, "xreply_ok", r->xreply_ok);
        fputs(",\"addr\":\"", f);
        for (k = 0; k < 16; ++k) fprintf(f, "%02x", r->address.in6_8[k]);
        fputs("\"}\n", f);
    }
    fprintf(f, "{\"t\":\"classstats\",\"already\":%u,\"assigned\":%.0f,\"unassigned\":%.0f}\n",
            iauth_class_already_assigned, iauth_class_assigned.n, iauth_class_not_assigned.n);
}
