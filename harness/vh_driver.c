/* vh_driver.c - engine E1: a fork server living inside the real daemon.
 *
 * Loaded as the last entry of core.modules by the unmodified main().  Once iauth_startup() has written
 * the banner, the zero-timeout callback below takes over the event loop's *dispatch decisions*: it
 * serves EXPAND requests from the orchestrator (vp/e1.py).  For each request a child replays a history
 * of environment events on the live daemon state and forks one grandchild per candidate event; each
 * grandchild applies its event through the daemon's own handlers and reports what reached fd 1, a
 * structured dump of the daemon state, probe outputs and how it terminated.
 *
 * Events:  L <bytes>  write the bytes to the daemon's stdin pipe, call the read handler until drained
 *          T <id>     fire the pending request timer of client <id> (one-shot semantics)
 *          O          fire a pending request timer that belongs to no live request (enabled only if the audit finds one)
 *          R <path>   conf_read(path) - the body of the SIGUSR1 handler
 *          E          end of input; the grandchild returns into main() and takes the real exit path
 */
#define _GNU_SOURCE
#include "vh_limits.h"
#include "src/common.h"
#include "modules/iauth.h"
#include <fcntl.h>
#include <signal.h>
#include <sys/ioctl.h>
#include <sys/mman.h>
#include <sys/stat.h>
#include <sys/wait.h>
#include <unistd.h>

/* accessors exported by the wrapper translation units */
void vh_core_read(void);
int vh_core_started(void);
size_t vh_core_inbuf_len(void);
int vh_core_fire_timeout(int id);
int vh_core_fire_orphan(void);
struct iauth_request *vh_core_first_req(void);
struct iauth_request *vh_core_next_req(struct iauth_request *req);
void vh_core_dump_head(FILE *f);
void vh_core_dump_req(FILE *f, struct iauth_request *r);
void vh_xq_dump_client(FILE *f, struct iauth_request *req);
void vh_xq_dump_services(FILE *f);
void vh_class_dump(FILE *f);

#define F_DUMP   1
#define F_STATS  2
#define F_EOF    4
#define F_CONFIG 8
#define F_LSAN  16   /* longer watchdog: LeakSanitizer runs at exit */

static int ctl_in = -1, ctl_out = -1;
static int in_w = -1;
static int leave_to_main;

/* request storage: static, so the driver never changes the daemon's heap footprint */
#define REQBUF (8u << 20)
#define MAXEV 4096
static char reqbuf[REQBUF];
struct ev { char kind; unsigned len; char *data; };
static struct ev evs[MAXEV];

/* ---- low-level I/O ------------------------------------------------------------------------------ */
static void xwrite(int fd, const void *p, size_t n)
{
    const char *c = p;
    while (n) {
        ssize_t w = write(fd, c, n);
        if (w < 0) { if (errno == EINTR) continue; _exit(97); }
        c += w; n -= w;
    }
}

static int xread(int fd, void *p, size_t n)
{
    char *c = p;
    while (n) {
        ssize_t r = read(fd, c, n);
        if (r < 0) { if (errno == EINTR) continue; return -1; }
        if (r == 0) return -1;
        c += r; n -= r;
    }
    return 0;
}

static int read_line(int fd, char *buf, size_t max)
{
    size_t n = 0;
    while (n + 1 < max) {
        char c;
        if (xread(fd, &c, 1)) return -1;
        if (c == '\n') break;
        buf[n++] = c;
    }
    buf[n] = '\0';
    return (int)n;
}

static size_t fd_size(int fd)
{
    struct stat sb;
    if (fstat(fd, &sb)) return 0;
    return sb.st_size;
}

static void send_blob_from_fd(int fd, size_t off, size_t len)
{
    char buf[65536];
    while (len) {
        ssize_t r = pread(fd, buf, len < sizeof(buf) ? len : sizeof(buf), off);
        if (r <= 0) { memset(buf, '?', sizeof(buf)); r = len < sizeof(buf) ? len : sizeof(buf); }
        xwrite(ctl_out, buf, r);
        off += r; len -= r;
    }
}

/* ---- applying one event ------------------------------------------------------------------------- */
static void drain_input(const char *data, size_t rem)
{
    int avail;
    for (;;) {
        if (rem > 0) {
            ssize_t w = write(in_w, data, rem);
            if (w > 0) { data += w; rem -= w; }
        }
        avail = 0;
        ioctl(0, FIONREAD, &avail);
        if (avail <= 0) {
            if (rem == 0) break;
            continue;
        }
        vh_core_read();
    }
}

static void do_eof(void)
{
    int p[2];
    if (pipe(p)) _exit(98);
    close(p[1]);
    dup2(p[0], 0);
    close(p[0]);
    close(in_w);
    in_w = -1;
    vh_core_read();
}

/* returns 0 ok, 1 disabled; *rc receives an event-specific result code */
static int apply_event(struct ev *e, int *rc)
{
    *rc = 0;
    switch (e->kind) {
    case 'L':
        drain_input(e->data, e->len);
        return 0;
    case 'T':
        return vh_core_fire_timeout(atoi(e->data)) ? 0 : 1;
    case 'O':
        return vh_core_fire_orphan() ? 0 : 1;
    case 'R':
        *rc = conf_read(e->data);
        return 0;
    case 'E':
        do_eof();
        return 0;
    }
    return 1;
}

static void write_dump(FILE *f)
{
    struct iauth_request *r;
    vh_core_dump_head(f);
    for (r = vh_core_first_req(); r; r = vh_core_next_req(r)) {
        vh_core_dump_req(f, r);
        vh_xq_dump_client(f, r);
    }
    vh_xq_dump_services(f);
    vh_class_dump(f);
}

static void dump_to_fd(int fd)
{
    char *buf = NULL;
    size_t len = 0;
    FILE *f = open_memstream(&buf, &len);
    write_dump(f);
    fclose(f);
    xwrite(fd, buf, len);
    free(buf);
}

static const char *status_of(int st, char *tmp)
{
    if (WIFEXITED(st)) {
        int c = WEXITSTATUS(st);
        if (c == 0) return "ok";
        if (c == 86) return "asan";
        sprintf(tmp, "exit%d", c);
        return tmp;
    }
    if (WIFSIGNALED(st)) {
        if (VH_IS_TIMEOUT_SIGNAL(WTERMSIG(st))) return "timeout";
        sprintf(tmp, "sig%d", WTERMSIG(st));
        return tmp;
    }
    return "unknown";
}

/* ---- one EXPAND request ------------------------------------------------------------------------- */
static void run_candidate(int idx, struct ev *e, int flags)
{
    int out_m = memfd_create("vh_out", 0), err_m = memfd_create("vh_err", 0);
    int res_m = memfd_create("vh_res", 0), exit_m = memfd_create("vh_exit", 0);
    pid_t pid;
    int st = 0;
    char tmp[32], hdr[256], resline[128];
    size_t outlen, errlen, reslen, exitlen;

    pid = fork();
    if (pid == 0) {
        int rc, dis;
        char line[96];
        off_t split1, split2, split3;
        char fdname[16];
        dup2(out_m, 1);
        dup2(err_m, 2);
        vh_alarm((flags & F_LSAN) ? 30 : 10);
        dis = apply_event(e, &rc);
        /* no fflush() here: what the daemon leaves in its stdio buffer has NOT reached the server - a verdict that is only
         * written out by a later event is late (the daemon's own iauth_send() flushes every line on the pinned tree) */
        split1 = lseek(1, 0, SEEK_CUR);
        if (e->kind != 'E' && !dis) {
            if (flags & F_DUMP) {
                xwrite(res_m, "DUMP\n", 5);
                dump_to_fd(res_m);
            }
        }
        split2 = split3 = split1;
        if (e->kind != 'E' && !dis && (flags & F_STATS)) {
            static const char q[] = "-1 ? stats\n";
            drain_input(q, sizeof(q) - 1);
            split2 = split3 = lseek(1, 0, SEEK_CUR);
        }
        if (e->kind != 'E' && !dis && (flags & F_CONFIG)) {
            static const char q[] = "-1 ? config\n";
            drain_input(q, sizeof(q) - 1);
            split3 = lseek(1, 0, SEEK_CUR);
        }
        snprintf(line, sizeof(line), "RES %s %d %ld %ld %ld\n", dis ? "disabled" : "ok", rc, (long)split1, (long)split2, (long)split3);
        xwrite(res_m, line, strlen(line));
        if (dis)
            _exit(0);
        if (e->kind == 'E' || (flags & F_EOF)) {
            snprintf(fdname, sizeof(fdname), "%d", exit_m);
            setenv("VH_EXIT_FD", fdname, 1);
            if (e->kind != 'E')
                do_eof();
            leave_to_main = 1;
            return; /* unwinds to vh_serve(), which returns into the event loop -> main() -> exit path */
        }
        _exit(0);
    }
    while (waitpid(pid, &st, 0) < 0 && errno == EINTR) {}
    outlen = fd_size(out_m); errlen = fd_size(err_m); reslen = fd_size(res_m); exitlen = fd_size(exit_m);
    (void)resline;
    snprintf(hdr, sizeof(hdr), "R %d %s %zu %zu %zu %zu\n", idx, status_of(st, tmp), outlen, reslen, errlen, exitlen);
    xwrite(ctl_out, hdr, strlen(hdr));
    send_blob_from_fd(out_m, 0, outlen);
    send_blob_from_fd(res_m, 0, reslen);
    send_blob_from_fd(err_m, 0, errlen);
    send_blob_from_fd(exit_m, 0, exitlen);
    close(out_m); close(err_m); close(res_m); close(exit_m);
}

static void do_expand(int nh, int nc, int flags)
{
    pid_t pid;
    int st = 0, ii;
    char tmp[32], hdr[128];

    pid = fork();
    if (pid == 0) {
        int devnull = open("/dev/null", O_WRONLY);
        int err_m = memfd_create("vh_herr", 0);
        int saved_out = dup(1), rc, bad = -1;
        dup2(devnull, 1);
        dup2(err_m, 2);
        vh_alarm(30);
        for (ii = 0; ii < nh; ++ii) {
            if (apply_event(&evs[ii], &rc)) { bad = ii; break; }
        }
        vh_alarm(0);
        {
            /* report the state reached by the replay, so that the orchestrator can assert determinism */
            int res_m = memfd_create("vh_hres", 0);
            size_t len;
            dump_to_fd(res_m);
            len = fd_size(res_m);
            snprintf(hdr, sizeof(hdr), "H %d %zu\n", bad, len);
            xwrite(ctl_out, hdr, strlen(hdr));
            send_blob_from_fd(res_m, 0, len);
            close(res_m);
        }
        dup2(saved_out, 1);
        close(saved_out);
        close(devnull);
        if (bad < 0) {
            for (ii = 0; ii < nc; ++ii) {
                run_candidate(ii, &evs[nh + ii], flags);
                if (leave_to_main)
                    return;
            }
        }
        _exit(0);
    }
    while (waitpid(pid, &st, 0) < 0 && errno == EINTR) {}
    snprintf(hdr, sizeof(hdr), "END %s\n", status_of(st, tmp));
    xwrite(ctl_out, hdr, strlen(hdr));
}

/* ---- one TRACE request: apply the events one after another in a single child, report each step ---- */
static void do_trace(int n, int flags)
{
    pid_t pid;
    int st = 0, ii;
    char tmp[32], hdr[128];
    int err_m = memfd_create("vh_terr", 0), exit_m = memfd_create("vh_texit", 0);

    pid = fork();
    if (pid == 0) {
        char fdname[16];
        dup2(err_m, 2);
        vh_alarm((flags & F_LSAN) ? 40 : 20);
        for (ii = 0; ii < n; ++ii) {
            int out_m = memfd_create("vh_tout", 0), res_m = memfd_create("vh_tres", 0);
            int rc, dis;
            char line[96];
            size_t outlen, reslen;
            off_t split1;
            dup2(out_m, 1);
            if (evs[ii].kind == 'E') {
                snprintf(hdr, sizeof(hdr), "R %d ok 0 0 0 0\n", ii);
                xwrite(ctl_out, hdr, strlen(hdr));
                snprintf(fdname, sizeof(fdname), "%d", exit_m);
                setenv("VH_EXIT_FD", fdname, 1);
                do_eof();
                leave_to_main = 1;
                return;
            }
            dis = apply_event(&evs[ii], &rc);
            split1 = lseek(1, 0, SEEK_CUR);      /* no fflush(): see do_expand */
            if (!dis && (flags & F_DUMP)) {
                xwrite(res_m, "DUMP\n", 5);
                dump_to_fd(res_m);
            }
            snprintf(line, sizeof(line), "RES %s %d %ld %ld %ld\n", dis ? "disabled" : "ok", rc, (long)split1, (long)split1, (long)split1);
            xwrite(res_m, line, strlen(line));
            outlen = fd_size(out_m); reslen = fd_size(res_m);
            snprintf(hdr, sizeof(hdr), "R %d ok %zu %zu 0 0\n", ii, outlen, reslen);
            xwrite(ctl_out, hdr, strlen(hdr));
            send_blob_from_fd(out_m, 0, outlen);
            send_blob_from_fd(res_m, 0, reslen);
            close(out_m); close(res_m);
        }
        _exit(0);
    }
    while (waitpid(pid, &st, 0) < 0 && errno == EINTR) {}
    {
        size_t errlen = fd_size(err_m), exitlen = fd_size(exit_m);
        snprintf(hdr, sizeof(hdr), "T %zu %zu\n", errlen, exitlen);
        xwrite(ctl_out, hdr, strlen(hdr));
        send_blob_from_fd(err_m, 0, errlen);
        send_blob_from_fd(exit_m, 0, exitlen);
    }
    close(err_m); close(exit_m);
    snprintf(hdr, sizeof(hdr), "END %s\n", status_of(st, tmp));
    xwrite(ctl_out, hdr, strlen(hdr));
}

static int read_events(int n)
{
    size_t used = 0;
    int ii;
    char line[64];
    for (ii = 0; ii < n; ++ii) {
        unsigned len;
        char kind;
        if (read_line(ctl_in, line, sizeof(line)) < 0) return -1;
        if (sscanf(line, "%c %u", &kind, &len) != 2) return -1;
        if (ii >= MAXEV || used + len + 1 > REQBUF) return -1;
        evs[ii].kind = kind; evs[ii].len = len; evs[ii].data = reqbuf + used;
        if (len && xread(ctl_in, reqbuf + used, len)) return -1;
        reqbuf[used + len] = '\0';
        used += len + 1;
    }
    return 0;
}

static void vh_serve(evutil_socket_t fd, short what, void *arg)
{
    char line[128];
    int p[2];
    (void)fd; (void)what; (void)arg;

    if (!vh_core_started()) {
        struct timeval tv = { 0, 0 };
        event_base_once(ev_base, -1, EV_TIMEOUT, vh_serve, NULL, &tv);
        return;
    }
    fflush(stdout);
    /* own the daemon's input: fd 0 becomes a pipe we write to */
    if (pipe(p)) _exit(98);
    fcntl(p[1], F_SETPIPE_SZ, 1 << 20);
    fcntl(p[1], F_SETFL, O_NONBLOCK);
    dup2(p[0], 0);
    close(p[0]);
    in_w = p[1];
    {
        /* what the daemon wrote during start-up (version banner, config report, policy line) */
        size_t len = fd_size(1);
        char hdr[64];
        snprintf(hdr, sizeof(hdr), "BANNER %zu\n", len);
        xwrite(ctl_out, hdr, strlen(hdr));
        send_blob_from_fd(1, 0, len);
    }
    for (;;) {
        int nh, nc, flags;
        if (read_line(ctl_in, line, sizeof(line)) < 0)
            _exit(0);
        if (!strcmp(line, "QUIT"))
            _exit(0);
        if (sscanf(line, "EXPAND %d %d %d", &nh, &nc, &flags) == 3) {
            if (read_events(nh + nc)) _exit(96);
            do_expand(nh, nc, flags);
            if (leave_to_main)
                return;
            continue;
        }
        if (sscanf(line, "TRACE %d %d", &nh, &flags) == 2) {
            if (read_events(nh)) _exit(96);
            do_trace(nh, flags);
            if (leave_to_main)
                return;
            continue;
        }
        _exit(95);
    }
}

void module_constructor(const char name[])
{
    struct timeval tv = { 0, 0 };
    const char *ci = getenv("VH_CTL_IN"), *co = getenv("VH_CTL_OUT");
    (void)name;
    if (!ci || !co)
        return;
    ctl_in = atoi(ci);
    ctl_out = atoi(co);
    event_base_once(ev_base, -1, EV_TIMEOUT, vh_serve, NULL, &tv);
}
