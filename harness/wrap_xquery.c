/* wrap_xquery.c - the unmodified modules/iauth_xquery.c plus accessors for engine E1. */
#include "modules/iauth_xquery.c"
#include "vh_json.h"

void vh_xq_dump_client(FILE *f, struct iauth_request *req)
{
    struct iauth_xquery_client *cli;
    void *ptr = &iauth_xquery;
    cli = set_find(&req->data, &ptr);
    if (!cli) {
        fprintf(f, "{\"t\":\"xq\",\"id\":%d,\"missing\":1}\n", req->client);
        return;
    }
    fprintf(f, "{\"t\":\"xq\",\"id\":%d,\"modes\":%u,\"sent\":%u,\"ref\":%u,\"more\":%u,\"ok\":%u",
            req->client, (unsigned)cli->modes.bits[0], cli->sent_mask, cli->ref_mask, cli->more_mask, cli->ok_mask);
    {
        /* which slots were refilled since this client's masks were last brought up to date (fix 27f0830): the epoch numbers themselves grow for ever
         * and would keep equal states apart, this relation is what the module's behaviour depends on */
        unsigned int ii, refilled = 0;
        if (cli->epoch != iauth_xquery_epoch)
            for (ii = 0; ii < iauth_xquery_services.used && ii < 32; ++ii)
                if (!iauth_xquery_services.vec[ii] || iauth_xquery_services.vec[ii]->epoch > cli->epoch)
                    refilled |= 1u << ii;
        fprintf(f, ",\"refilled\":%u", refilled);
    }
    VH_JS(f, "pw", cli->password);
    fputs("}\n", f);
}

void vh_xq_dump_services(FILE *f)
{
    unsigned int ii;
    for (ii = 0; ii < iauth_xquery_services.used; ++ii) {
        struct iauth_xquery_service *srv = iauth_xquery_services.vec[ii];
        if (!srv) {
            fprintf(f, "{\"t\":\"svc\",\"slot\":%u,\"empty\":1}\n", ii);
            continue;
        }
        fprintf(f, "{\"t\":\"svc\",\"slot\":%u,\"type\":%d,\"conf\":%d,\"refs\":%u,\"queries\":%u,\"good_acct\":%u,\"good_no_acct\":%u,\"bad\":%u,\"bad_acct\":%u,\"unlinked\":%u",
                ii, (int)srv->type, srv->configured, srv->refs, srv->queries, srv->good_acct, srv->good_no_acct, srv->bad, srv->bad_acct, srv->unlinked);
        VH_JP(f, "name", srv->name);
        fputs("}\n", f);
    }
    fprintf(f, "{\"t\":\"xqstats\",\"cli_allocs\":%lu,\"srv_allocs\":%lu,\"srv_frees\":%lu}\n", stats.n_cli_allocs, stats.n_srv_allocs, stats.n_srv_frees);
}
