/* e2_conf.c - engine E2 "conf": a fork server around the real config.c / log.c (C14, C15, C16, C18).
 *
 *   core_vh conf serve        requests on stdin, JSON lines on stdout (see vp/conf.py)
 *
 * Events (wire form  "<K> <len>\n<bytes>"):
 *   G  register a node: tab separated  s <subtype> <path> <default|\1>   |  l <path> <item>...
 *                                      i <path> <host|\1> <service|\1>    |  o <path>
 *      (\1 alone = NULL; every registered node gets the logging hook; missing parent objects are registered)
 *   L  conf_read() of exactly these bytes (written to a memfd, opened through /proc/self/fd)
 *   F  conf_read() of the named path (for unreadable / missing files)
 *   M  emit one message "<tag>-<facility>-<severity>" for every facility of {f1,f2,f3} and every severity
 *      (fatal in a sub-fork, since it terminates the process), then read the files A, B, C of the cwd back
 *
 * Requests:
 *   EXPAND <n_hist> <n_cand>     a child replays the history; every candidate is applied in its own grandchild
 *                                which reports {rc, hooks, dump, emit}; crashes are observations
 *   SWEEP <n_hist> <src...>      a child replays the history; candidates (a list, or every token string up to a
 *                                length) are loaded one after another IN ONE PROCESS for as long as they fail -
 *                                after each failure the live tree must dump identically and no hook may have
 *                                run; a success (or a contaminated state) ends that process and a fresh fork of
 *                                the prior state continues with the next candidate
 */
#define _GNU_SOURCE
#include "vh_limits.h"
#include "src/common.h"
#include "vh_json.h"
#include <sys/mman.h>
#include <sys/wait.h>
#include <sys/stat.h>
#include <fcntl.h>
#include <unistd.h>
#include <signal.h>

static int mfd = -1;
static char mpath[64];
static struct char_vector hooklog;
static int hook_count;

/* ---- paths, hooks ---------------------------------------------------------------------------------- */
static void node_path(struct conf_node_base *n, struct char_vector *cv)
{
    if (n->parent && n->parent->base.parent) {
        node_path(&n->parent->base, cv);
        char_vector_append(cv, '/');
    }
    char_vector_append_string(cv, n->name ? n->name : "?");
}

static const char *kind_name(int t)
{
    switch (t) {
    case CONF_STRING: return "s";
    case CONF_INADDR: return "i";
    case CONF_STRING_LIST: return "l";
    case CONF_OBJECT: return "o";
    }
    return "?";
}

/* Hooks on unregistered entries, the way log.c, iauth_xquery and iauth_class put theirs on the entries of their sections (registration 'u' turns this on:
 * after every successful load each unregistered node without a hook gets this one).  Logged with a "u:" prefix; invisible in the dump. */
static int hook_unregistered;
static CONF_UPDATE_HOOK(vh_hook_u)
{
    hook_count++;
    char_vector_append_string(&hooklog, "u:");
    char_vector_append_string(&hooklog, kind_name(node_->type));
    char_vector_append(&hooklog, ':');
    node_path(node_, &hooklog);
    char_vector_append(&hooklog, '\n');
}

static void hook_unregistered_nodes(struct conf_node_object *obj, int depth)
{
    struct set_node *n;
    int k = 0;
    if (depth > 16) return;
    for (n = set_first(&obj->contents); n && k < 4096; n = set_next(n), ++k) {
        struct conf_node_base *b = set_node_data(n);
        if (!b->specified && !b->hook)
            b->hook = vh_hook_u;
        if (b->type == CONF_OBJECT)
            hook_unregistered_nodes(ENCLOSING_STRUCT(b, struct conf_node_object, base), depth + 1);
    }
}

static CONF_UPDATE_HOOK(vh_hook)
{
    hook_count++;
    char_vector_append_string(&hooklog, kind_name(node_->type));
    char_vector_append(&hooklog, ':');
    node_path(node_, &hooklog);
    char_vector_append(&hooklog, '\n');
}

/* ---- dump ------------------------------------------------------------------------------------------- */
static void jstr(struct char_vector *cv, const char *s)
{
    if (!s) { char_vector_append_string(cv, "null"); return; }
    char_vector_append(cv, '"');
    for (; *s; ++s) {
        unsigned char c = (unsigned char)*s;
        if (c == '"' || c == '\\') { char_vector_append(cv, '\\'); char_vector_append(cv, c); }
        else if (c < 0x20 || c >= 0x7f) char_vector_append_printf(cv, "\\u%04x", c);
        else char_vector_append(cv, c);
    }
    char_vector_append(cv, '"');
}

static void jvec(struct char_vector *cv, const struct string_vector *sv)
{
    unsigned int ii;
    char_vector_append(cv, '[');
    for (ii = 0; ii < sv->used; ++ii) {
        if (ii) char_vector_append(cv, ',');
        jstr(cv, sv->vec[ii]);
    }
    char_vector_append(cv, ']');
}

static void dump_node(struct char_vector *cv, struct conf_node_base *b)
{
    char_vector_append_string(cv, "{\"n\":");
    jstr(cv, b->name);
    char_vector_append_printf(cv, ",\"t\":\"%s\",\"sp\":%d,\"pr\":%d,\"hk\":%d", kind_name(b->type), b->specified, b->present,
                              b->hook == vh_hook ? 1 : ((b->hook && b->hook != vh_hook_u) ? 2 : 0));
    switch (b->type) {
    case CONF_STRING: {
        struct conf_node_string *s = ENCLOSING_STRUCT(b, struct conf_node_string, base);
        char_vector_append_string(cv, ",\"v\":"); jstr(cv, s->value);
        if (b->specified) {
            char_vector_append_string(cv, ",\"d\":"); jstr(cv, s->def_value);
            char_vector_append_printf(cv, ",\"st\":%d,\"pv\":", (int)s->subtype);
            switch (s->subtype) {
            case CONF_STRING_PLAIN:
                if (s->parsed.p_string == s->value) char_vector_append_string(cv, "\"=v\"");
                else if (!s->parsed.p_string) char_vector_append_string(cv, "null");
                else char_vector_append_string(cv, "\"!stale-pointer\"");
                break;
            case CONF_STRING_BOOLEAN: char_vector_append_printf(cv, "%d", s->parsed.p_boolean); break;
            case CONF_STRING_INTEGER: char_vector_append_printf(cv, "%d", s->parsed.p_integer); break;
            case CONF_STRING_FLOAT: char_vector_append_printf(cv, "\"%.17g\"", s->parsed.p_double); break;
            case CONF_STRING_INTERVAL: char_vector_append_printf(cv, "%u", s->parsed.p_interval); break;
            case CONF_STRING_VOLUME: char_vector_append_printf(cv, "%u", s->parsed.p_volume); break;
            default: char_vector_append_string(cv, "\"?\""); break;
            }
        }
        break;
    }
    case CONF_INADDR: {
        struct conf_node_inaddr *s = ENCLOSING_STRUCT(b, struct conf_node_inaddr, base);
        char_vector_append_string(cv, ",\"h\":"); jstr(cv, s->hostname);
        char_vector_append_string(cv, ",\"sv\":"); jstr(cv, s->service);
        if (b->specified) {
            char_vector_append_string(cv, ",\"dh\":"); jstr(cv, s->def_hostname);
            char_vector_append_string(cv, ",\"ds\":"); jstr(cv, s->def_service);
        }
        char_vector_append_printf(cv, ",\"as\":%d", (int)s->state);
        break;
    }
    case CONF_STRING_LIST: {
        struct conf_node_string_list *s = ENCLOSING_STRUCT(b, struct conf_node_string_list, base);
        char_vector_append_string(cv, ",\"v\":"); jvec(cv, &s->value);
        if (b->specified) { char_vector_append_string(cv, ",\"d\":"); jvec(cv, &s->def_value); }
        break;
    }
    case CONF_OBJECT: {
        struct conf_node_object *o = ENCLOSING_STRUCT(b, struct conf_node_object, base);
        struct set_node *it;
        unsigned int n = 0;
        char_vector_append_string(cv, ",\"c\":[");
        for (it = set_first(&o->contents); it; it = set_next(it)) {
            struct conf_node_base *c = set_node_data(it);
            if (n > set_size(&o->contents) + 2) {
                /* the child list is longer than the set's count: a cycle or foreign nodes - report instead of walking for ever */
                char_vector_append_string(cv, ",{\"!child-list-does-not-end\":1}");
                break;
            }
            if (n++) char_vector_append(cv, ',');
            if (c->parent != o) char_vector_append_string(cv, "{\"!badparent\":1},");
            dump_node(cv, c);
        }
        char_vector_append_printf(cv, "],\"cnt\":%u", (unsigned)set_size(&o->contents));
        break;
    }
    }
    char_vector_append(cv, '}');
}

static char *dump_tree(void)
{
    struct char_vector cv;
    memset(&cv, 0, sizeof(cv));
    dump_node(&cv, &conf_get_root()->base);
    char_vector_append(&cv, '\0');
    return cv.vec;
}

/* ---- events ----------------------------------------------------------------------------------------- */
struct ev { char kind; size_t len; char *data; };

static int read_ev(FILE *in, struct ev *e)
{
    char hdr[64];
    if (!fgets(hdr, sizeof(hdr), in)) return -1;
    e->kind = hdr[0];
    e->len = strtoul(hdr + 2, NULL, 10);
    e->data = malloc(e->len + 1);
    if (e->len && fread(e->data, 1, e->len, in) != e->len) return -1;
    e->data[e->len] = '\0';
    return 0;
}

static struct conf_node_object *parent_of(char *path, char **leaf)
{
    struct conf_node_object *obj = conf_get_root();
    char *sl;
    while ((sl = strchr(path, '/'))) {
        struct conf_node_object *c;
        *sl = '\0';
        c = conf_register_object(obj, path);
        if (!c->base.hook || c->base.hook == vh_hook_u)
            c->base.hook = vh_hook;
        obj = c;
        path = sl + 1;
    }
    *leaf = path;
    return obj;
}

static char *nul1(char *s) { return (s && s[0] == '\1' && !s[1]) ? NULL : s; }

/* registered defaults must outlive the nodes: they are never freed (one arena per process) */
static void do_register(const char *spec)
{
    char *buf = strdup(spec), *f[16], *p = buf, *leaf;
    int nf = 0;
    struct conf_node_object *par;
    while (nf < 16) {
        f[nf++] = p;
        p = strchr(p, '\t');
        if (!p) break;
        *p++ = '\0';
    }
    if (f[0][0] == 's' && nf >= 4) {
        struct conf_node_string *n;
        par = parent_of(f[2], &leaf);
        n = conf_register_string(par, (enum conf_node_string_subtype)atoi(f[1]), leaf, nul1(f[3]));
        n->base.hook = vh_hook;
    } else if (f[0][0] == 'l' && nf >= 2) {
        struct string_vector sv;
        struct conf_node_string_list *n;
        int k;
        memset(&sv, 0, sizeof(sv));
        for (k = 2; k < nf; ++k) string_vector_append(&sv, f[k]);
        par = parent_of(f[1], &leaf);
        n = conf_register_string_list_sv(par, leaf, &sv);
        n->base.hook = vh_hook;
        string_vector_clear(&sv);
    } else if (f[0][0] == 'i' && nf >= 4) {
        struct conf_node_inaddr *n;
        par = parent_of(f[1], &leaf);
        n = conf_register_inaddr(par, leaf, nul1(f[2]), nul1(f[3]));
        n->base.hook = vh_hook;
    } else if (f[0][0] == 'u') {
        hook_unregistered = 1;
    } else if (f[0][0] == 'r') {
        conf_get_root()->base.hook = vh_hook;     /* observe membership changes of the root, as log.c does for its section */
    } else if (f[0][0] == 'o' && nf >= 2) {
        struct conf_node_object *n;
        par = parent_of(f[1], &leaf);
        n = conf_register_object(par, leaf);
        if (!n->base.hook || n->base.hook == vh_hook_u)
            n->base.hook = vh_hook;
    } else {
        fprintf(stderr, "bad registration %s\n", spec);
        _exit(3);
    }
    /* buf is kept: leaf names are copied by the library, defaults are referenced */
}

static int do_load(const char *data, size_t len)
{
    if (ftruncate(mfd, 0) < 0 || pwrite(mfd, data, len, 0) != (ssize_t)len) {
        fprintf(stderr, "memfd write failed\n");
        _exit(3);
    }
    {
        int rc = conf_read(mpath);
        if (rc == 0 && hook_unregistered)
            hook_unregistered_nodes(conf_get_root(), 0);
        return rc;
    }
}

static const char *SEVN[] = { "debug", "command", "info", "warning", "error", "fatal" };
static const char *FACS[] = { "f1", "f2", "f3" };
/* "a": a destination whose name differs from "A" in case only;  LA / LB: two names that agree in their first 255 characters (with the "file:" prefix) */
#define VH_LONGDIR "xxxxxxxxxxxxxxxxxxxxxxxxxxxxxxxxxxxxxxxxxxxxxxxxxxxxxxxxxxxxxxxxxxxxxxxxxxxxxxxxxxxxxxxxxxxxxxxxxxxxxxxxxxxxxxxxxxxxxxxxxxxxxxxxxxxxxxxxxxxxxxxxxxxxxxxxxxxxxxxxxxxxxxxxxxxxxxxxxxxxxxxxxxxxxxxxxxxxxxxx"
#define VH_LONGPFX VH_LONGDIR "/yyyyyyyyyyyyyyyyyyyyyyyyyyyyyyyyyyyyyyyyyyyyyyyyyyyyyyyyyyyy"
static const char *FILES[] = { "A", "B", "C", "a", VH_LONGPFX "A", VH_LONGPFX "B" };
static const char *FILEKEYS[] = { "A", "B", "C", "a", "LA", "LB" };
#define NFILES 6

static void emit_all(const char *tag, struct char_vector *out)
{
    int fi, sv, k, padlen = 0;
    char *pad;
    const char *plus = strchr(tag, '+');
    if (plus) padlen = atoi(plus + 1);      /* "T7+1000": every message is followed by '-' and 1000 filler characters */
    pad = calloc(1, padlen + 2);
    if (padlen) { pad[0] = '-'; memset(pad + 1, 'x', padlen); }
    for (k = 0; k < NFILES; ++k)
        if (truncate(FILES[k], 0) < 0) {}
    for (fi = 0; fi < 3; ++fi) {
        struct log_type *lt = log_type_register(FACS[fi], NULL);
        for (sv = 0; sv < LOG_NUM_SEVERITIES; ++sv) {
            if (sv == LOG_FATAL) {
                pid_t p;
                int st;
                fflush(NULL);
                p = fork();
                if (p == 0) {
                    log_message(lt, LOG_FATAL, "%s-%s-%s%s", tag, FACS[fi], SEVN[sv], pad);
                    _exit(9); /* not reached: LOG_FATAL terminates */
                }
                waitpid(p, &st, 0);
                if (!WIFEXITED(st) || WEXITSTATUS(st) != 1)
                    char_vector_append_printf(out, "\"fatal_%s\":%d,", FACS[fi], WIFEXITED(st) ? WEXITSTATUS(st) : -WTERMSIG(st));
            } else
                log_message(lt, (enum log_severity)sv, "%s-%s-%s%s", tag, FACS[fi], SEVN[sv], pad);
        }
    }
    for (k = 0; k < NFILES; ++k) {
        FILE *f = fopen(FILES[k], "r");
        char_vector_append_printf(out, "\"%s\":", FILEKEYS[k]);
        if (!f) { char_vector_append_string(out, "null,"); continue; }
        {
            struct char_vector all;
            int c;
            memset(&all, 0, sizeof(all));
            while ((c = fgetc(f)) != EOF) char_vector_append(&all, (char)c);
            char_vector_append(&all, '\0');
            jstr(out, all.vec);
            char_vector_append(out, ',');
            free(all.vec);
            fclose(f);
        }
    }
}

/* returns rc of a load (0 for other events); emit output appended to *extra */
static int apply(struct ev *e, struct char_vector *extra)
{
    switch (e->kind) {
    case 'G': do_register(e->data); return 0;
    case 'L': return do_load(e->data, e->len);
    case 'F': return conf_read(e->data);
    case 'M': emit_all(e->data, extra); return 0;
    }
    fprintf(stderr, "bad event kind %c\n", e->kind);
    _exit(3);
}

/* ---- child plumbing --------------------------------------------------------------------------------- */
static int errfd_new(void)
{
    int fd = memfd_create("stderr", 0);
    return fd;
}

static char *slurp_fd(int fd)
{
    struct stat sb;
    char *b;
    if (fstat(fd, &sb) < 0) return strdup("");
    b = calloc(1, sb.st_size + 1);
    if (pread(fd, b, sb.st_size, 0) < 0) {}
    return b;
}

static const char *status_text(int st, char *buf)
{
    if (WIFEXITED(st)) {
        if (WEXITSTATUS(st) == 0) return "ok";
        sprintf(buf, "exit%d", WEXITSTATUS(st));
    } else if (WIFSIGNALED(st)) {
        if (VH_IS_TIMEOUT_SIGNAL(WTERMSIG(st))) return "timeout";
        sprintf(buf, "sig%d", WTERMSIG(st));
    } else
        strcpy(buf, "unknown");
    return buf;
}

static void put_line(struct char_vector *cv)
{
    char_vector_append(cv, '\n');
    if (fwrite(cv->vec, 1, cv->used, stdout) != cv->used) {}
    fflush(stdout);
    cv->used = 0;
}

/* ---- EXPAND ------------------------------------------------------------------------------------------ */
static void do_expand(struct ev *hist, int nh, struct ev *cand, int nc)
{
    struct char_vector line, extra;
    int k, herr = errfd_new();
    pid_t c;
    int st;
    char sb[32];

    memset(&line, 0, sizeof(line));
    fflush(NULL);
    c = fork();
    if (c == 0) {
        dup2(herr, 2);
        vh_alarm(20);
        memset(&extra, 0, sizeof(extra));
        char_vector_append_string(&line, "{\"h\":1,\"rcs\":[");
        for (k = 0; k < nh; ++k) {
            int rc = apply(&hist[k], &extra);
            char_vector_append_printf(&line, "%s%d", k ? "," : "", rc);
        }
        {
            char *d = dump_tree();
            char_vector_append_string(&line, "],\"hooks\":");
            char_vector_append(&hooklog, '\0');
            jstr(&line, hooklog.vec);
            char_vector_append_string(&line, ",\"dump\":");
            char_vector_append_string(&line, d);
            char_vector_append(&line, '}');
            free(d);
        }
        put_line(&line);
        for (k = 0; k < nc; ++k) {
            int efd = errfd_new();
            pid_t g;
            fflush(NULL);
            g = fork();
            if (g == 0) {
                int rc, twice = 0;
                char *d;
                dup2(efd, 2);
                vh_alarm(10);
                hooklog.used = 0; hook_count = 0;
                memset(&extra, 0, sizeof(extra));
                if (cand[k].kind == 'D')
                    cand[k].kind = 'L', twice = 1;
                rc = apply(&cand[k], &extra);
                d = dump_tree();
                char_vector_append(&hooklog, '\0');
                char_vector_append_printf(&line, "{\"c\":%d,\"rc\":%d,\"hooks\":", k, rc);
                jstr(&line, hooklog.vec);
                if (twice) {
                    /* idempotence probe: the same bytes loaded a second time */
                    int rc2;
                    char *d2;
                    hooklog.used = 0; hook_count = 0;
                    rc2 = apply(&cand[k], &extra);
                    d2 = dump_tree();
                    char_vector_append(&hooklog, '\0');
                    char_vector_append_printf(&line, ",\"rc2\":%d,\"same2\":%d,\"hooks2\":", rc2, !strcmp(d, d2));
                    jstr(&line, hooklog.vec);
                    free(d2);
                }
                if (extra.used) {
                    char_vector_append_string(&line, ",\"emit\":{");
                    char_vector_append_count(&line, extra.vec, extra.used);
                    char_vector_append_string(&line, "\"_\":0}");
                }
                char_vector_append_string(&line, ",\"dump\":");
                char_vector_append_string(&line, d);
                char_vector_append(&line, '}');
                put_line(&line);
                _exit(0);
            }
            waitpid(g, &st, 0);
            {
                char *e = slurp_fd(efd);
                char_vector_append_printf(&line, "{\"s\":%d,\"status\":\"%s\",\"stderr\":", k, status_text(st, sb));
                jstr(&line, strlen(e) > 6000 ? e + strlen(e) - 6000 : e);
                char_vector_append(&line, '}');
                put_line(&line);
                free(e);
            }
            close(efd);
        }
        _exit(0);
    }
    waitpid(c, &st, 0);
    {
        char *e = slurp_fd(herr);
        char_vector_append_printf(&line, "{\"end\":\"%s\",\"stderr\":", status_text(st, sb));
        jstr(&line, strlen(e) > 6000 ? e + strlen(e) - 6000 : e);
        char_vector_append(&line, '}');
        put_line(&line);
        free(e);
    }
    close(herr);
    free(line.vec);
}

/* ---- SWEEP ------------------------------------------------------------------------------------------- */
struct shm {
    long idx;           /* candidate being processed */
    long done;          /* candidates completed */
    long n_fail, n_ok, n_viol, n_fatal;
    long rc_hist[8];    /* by -rc (0..7) */
    long maxlen_ok;
    int stop_reason;    /* 1 = success, 2 = violation (state contaminated), 3 = end */
    unsigned long ok_hash, ref_hash;   /* dump of the tree after a successful load: in the sweeping worker / in a fresh fork of the prior state */
    long fails_in_worker;              /* failed loads this worker went through before the success */
    long n_diff_checked;
};

static unsigned long fnv(const char *s)
{
    unsigned long h = 1469598103934665603ul;
    for (; *s; ++s) h = (h ^ (unsigned char)*s) * 1099511628211ul;
    return h;
}

struct source {
    int kind;           /* 0 list, 1 token strings */
    long n;             /* list: number of blobs */
    struct ev *list;
    int ntok, maxlen;
    struct ev *tok;
    long part_k, part_n;
    long total;         /* number of indices */
    const char *suffix; size_t suffix_len;   /* appended to every token string */
};

static long ipow(long b, int e) { long r = 1; while (e-- > 0) r *= b; return r; }

static int cand_get(struct source *s, long idx, struct char_vector *out)
{
    out->used = 0;
    if (idx < 0 || idx >= s->total) return 0;
    if (s->kind == 0) {
        char_vector_append_count(out, s->list[idx].data, s->list[idx].len);
        return 1;
    } else {
        /* global index = part_k + idx * part_n over strings ordered by length, then lexicographically */
        long g = s->part_k + idx * s->part_n;
        int len, k;
        for (len = 0; len <= s->maxlen; ++len) {
            long cnt = ipow(s->ntok, len);
            if (g < cnt) break;
            g -= cnt;
        }
        if (len > s->maxlen) return 0;
        {
            int digits[32];
            for (k = len - 1; k >= 0; --k) { digits[k] = g % s->ntok; g /= s->ntok; }
            for (k = 0; k < len; ++k) char_vector_append_count(out, s->tok[digits[k]].data, s->tok[digits[k]].len);
        }
        if (s->suffix_len) char_vector_append_count(out, s->suffix, s->suffix_len);
        return 1;
    }
}

static void jhex(struct char_vector *cv, const char *d, size_t n)
{
    size_t i;
    char_vector_append(cv, '"');
    for (i = 0; i < n; ++i) char_vector_append_printf(cv, "%02x", (unsigned char)d[i]);
    char_vector_append(cv, '"');
}

static void do_sweep(struct ev *hist, int nh, struct source *src, int report_ok)
{
    struct shm *shm = mmap(NULL, sizeof(*shm), PROT_READ | PROT_WRITE, MAP_SHARED | MAP_ANONYMOUS, -1, 0);
    struct char_vector line, cand, extra;
    int herr = errfd_new(), st, k;
    char sb[32];
    pid_t c;

    memset(&line, 0, sizeof(line)); memset(&cand, 0, sizeof(cand)); memset(&extra, 0, sizeof(extra));
    memset(shm, 0, sizeof(*shm));
    fflush(NULL);
    c = fork();
    if (c == 0) {
        char *before;
        long next = 0;
        dup2(herr, 2);
        for (k = 0; k < nh; ++k) apply(&hist[k], &extra);
        before = dump_tree();
        while (next < src->total) {
            int efd = errfd_new();
            pid_t w;
            shm->idx = next; shm->stop_reason = 0;
            fflush(NULL);
            w = fork();
            if (w == 0) {
                long i;
                dup2(efd, 2);
                for (i = next; i < src->total; ++i) {
                    int rc;
                    char *after;
                    shm->idx = i;
                    if (!cand_get(src, i, &cand)) break;
                    hooklog.used = 0; hook_count = 0;
                    vh_alarm(10);
                    rc = do_load(cand.vec, cand.used);
                    vh_alarm(0);
                    if (rc <= 0 && rc > -8) shm->rc_hist[-rc]++;
                    if (rc == 0) {
                        after = dump_tree();    /* walks every pointer of the merged tree (ASan) */
                        shm->n_ok++;
                        if ((long)cand.used > shm->maxlen_ok) shm->maxlen_ok = cand.used;
                        if (report_ok) {
                            char_vector_append_string(&line, "{\"ok\":");
                            jhex(&line, cand.vec, cand.used);
                            char_vector_append_string(&line, ",\"dump\":");
                            char_vector_append_string(&line, after);
                            char_vector_append(&line, '}');
                            put_line(&line);
                        }
                        if (strstr(after, "\"!")) {
                            /* the dumper's own structural alarm: a successful load left a child with a foreign parent or a child list that does not end */
                            shm->n_viol++;
                            char_vector_append_string(&line, "{\"violation\":{\"kind\":\"corrupt-tree\",\"rc\":0,\"input\":");
                            jhex(&line, cand.vec, cand.used);
                            char_vector_append_string(&line, ",\"after\":"); char_vector_append_string(&line, after);
                            char_vector_append_string(&line, "}}");
                            put_line(&line);
                        }
                        shm->ok_hash = fnv(after);
                        shm->fails_in_worker = i - next;
                        free(after);
                        shm->done = i + 1; shm->stop_reason = 1;
                        _exit(0);
                    }
                    after = dump_tree();
                    if (strcmp(before, after) || hook_count) {
                        shm->n_viol++;
                        char_vector_append(&hooklog, '\0');
                        char_vector_append_printf(&line, "{\"violation\":{\"kind\":\"%s\",\"rc\":%d,\"input\":", strcmp(before, after) ? "state-changed" : "hook-ran", rc);
                        jhex(&line, cand.vec, cand.used);
                        char_vector_append_string(&line, ",\"hooks\":"); jstr(&line, hooklog.vec);
                        char_vector_append_string(&line, ",\"before\":"); char_vector_append_string(&line, before);
                        char_vector_append_string(&line, ",\"after\":"); char_vector_append_string(&line, after);
                        char_vector_append_string(&line, "}}");
                        put_line(&line);
                        shm->done = i + 1; shm->stop_reason = 2;
                        _exit(0);
                    }
                    free(after);
                    shm->n_fail++;
                    shm->done = i + 1;
                }
                shm->stop_reason = 3;
                _exit(0);
            }
            waitpid(w, &st, 0);
            {
                char *e = slurp_fd(efd), *u = strstr(e, "runtime error:");
                if (u) {
                    char *nl = strchr(u, '\n');
                    if (nl) *nl = '\0';
                    char_vector_append_string(&line, "{\"ubsan\":");
                    jstr(&line, u);
                    char_vector_append(&line, '}');
                    put_line(&line);
                }
                free(e);
            }
            if (shm->stop_reason == 0 || !WIFEXITED(st) || WEXITSTATUS(st) != 0) {
                /* the worker died while processing candidate shm->idx */
                char *e = slurp_fd(efd);
                long i = shm->idx;
                int fatal_exit = WIFEXITED(st) && WEXITSTATUS(st) == 1 && !strstr(e, "Sanitizer");
                cand_get(src, i, &cand);
                if (fatal_exit)
                    shm->n_fatal++;
                else
                    shm->n_viol++;
                char_vector_append_printf(&line, "{\"%s\":{\"kind\":\"died\",\"status\":\"%s\",\"input\":", fatal_exit ? "fatal_exit" : "violation", status_text(st, sb));
                jhex(&line, cand.vec, cand.used);
                char_vector_append_string(&line, ",\"stderr\":");
                jstr(&line, strlen(e) > 4000 ? e + strlen(e) - 4000 : e);
                char_vector_append_string(&line, "}}");
                put_line(&line);
                free(e);
                next = i + 1;
            } else {
                if (shm->stop_reason == 1 && shm->fails_in_worker > 0) {
                    /* the successful load came after failed ones in the same process: the result must be what a fresh fork of the
                     * prior state gets for the same bytes (a failed load leaves nothing behind, not even in parser statics) */
                    long i = shm->done - 1;
                    pid_t f;
                    int st2;
                    fflush(NULL);
                    f = fork();
                    if (f == 0) {
                        char *d;
                        cand_get(src, i, &cand);
                        vh_alarm(10);
                        do_load(cand.vec, cand.used);
                        d = dump_tree();
                        shm->ref_hash = fnv(d);
                        _exit(0);
                    }
                    waitpid(f, &st2, 0);
                    shm->n_diff_checked++;
                    if (WIFEXITED(st2) && WEXITSTATUS(st2) == 0 && shm->ref_hash != shm->ok_hash) {
                        cand_get(src, i, &cand);
                        shm->n_viol++;
                        char_vector_append_printf(&line, "{\"violation\":{\"kind\":\"after-failed-loads\",\"rc\":0,\"failed_before\":%ld,\"input\":", shm->fails_in_worker);
                        jhex(&line, cand.vec, cand.used);
                        char_vector_append_string(&line, ",\"first_failed\":");
                        cand_get(src, i - shm->fails_in_worker, &cand);
                        jhex(&line, cand.vec, cand.used);
                        char_vector_append_string(&line, "}}");
                        put_line(&line);
                    }
                }
                next = shm->done;
            }
            close(efd);
            if (shm->stop_reason == 3) break;
        }
        _exit(0);
    }
    waitpid(c, &st, 0);
    {
        char *e = slurp_fd(herr);
        char_vector_append_printf(&line, "{\"end\":\"%s\",\"total\":%ld,\"fail\":%ld,\"ok\":%ld,\"viol\":%ld,\"fatal_exit\":%ld,\"maxlen_ok\":%ld,\"diff_checked\":%ld,\"rc_hist\":[",
                                  status_text(st, sb), src->total, shm->n_fail, shm->n_ok, shm->n_viol, shm->n_fatal, shm->maxlen_ok, shm->n_diff_checked);
        for (k = 0; k < 8; ++k) char_vector_append_printf(&line, "%s%ld", k ? "," : "", shm->rc_hist[k]);
        char_vector_append_string(&line, "],\"stderr\":");
        jstr(&line, strlen(e) > 4000 ? e + strlen(e) - 4000 : e);
        char_vector_append(&line, '}');
        put_line(&line);
        free(e);
    }
    close(herr);
    munmap(shm, sizeof(*shm));
    free(line.vec); free(cand.vec);
}

/* ---- main loop ---------------------------------------------------------------------------------------- */
static struct ev *read_evs(FILE *in, int n)
{
    struct ev *v = calloc(n ? n : 1, sizeof(*v));
    int k;
    for (k = 0; k < n; ++k)
        if (read_ev(in, &v[k]) < 0) { fprintf(stderr, "short request\n"); exit(3); }
    return v;
}

static void free_evs(struct ev *v, int n)
{
    int k;
    for (k = 0; k < n; ++k) free(v[k].data);
    free(v);
}

int e2_conf_main(int argc, char **argv)
{
    char hdr[256];
    (void)argc; (void)argv;
    signal(SIGPIPE, SIG_IGN);
    setenv("TZ", "UTC", 1);
    log_set_verbosity(0);
    mfd = memfd_create("conf", 0);
    snprintf(mpath, sizeof(mpath), "/proc/self/fd/%d", mfd);
    if (mkdir(VH_LONGDIR, 0700) < 0) {}     /* for the two long destination names */
    conf_get_root();    /* config_init + log_init: the live tree now holds logs{verbose_timestamp} */
    printf("{\"ready\":1}\n");
    fflush(stdout);
    while (fgets(hdr, sizeof(hdr), stdin)) {
        if (!strncmp(hdr, "EXPAND ", 7)) {
            int nh = 0, nc = 0;
            struct ev *h, *c;
            sscanf(hdr + 7, "%d %d", &nh, &nc);
            h = read_evs(stdin, nh); c = read_evs(stdin, nc);
            do_expand(h, nh, c, nc);
            free_evs(h, nh); free_evs(c, nc);
        } else if (!strncmp(hdr, "SWEEP ", 6)) {
            /* SWEEP <n_hist> LIST <n> <report_ok>   |   SWEEP <n_hist> TOK <ntok> <maxlen> <k> <n> <report_ok> (+ one suffix blob) */
            int nh = 0, a = 0, b = 0, rep = 0;
            long pk = 0, pn = 1;
            char kind[16];
            struct source src;
            struct ev *h, *sfx = NULL;
            memset(&src, 0, sizeof(src));
            if (sscanf(hdr + 6, "%d %15s", &nh, kind) != 2) { fprintf(stderr, "bad sweep\n"); return 3; }
            h = read_evs(stdin, nh);
            if (!strcmp(kind, "LIST")) {
                sscanf(hdr + 6, "%*d %*s %d %d", &a, &rep);
                src.kind = 0; src.n = a; src.total = a; src.list = read_evs(stdin, a);
            } else {
                int len;
                long tot = 0;
                sscanf(hdr + 6, "%*d %*s %d %d %ld %ld %d", &a, &b, &pk, &pn, &rep);
                src.kind = 1; src.ntok = a; src.maxlen = b; src.part_k = pk; src.part_n = pn;
                src.tok = read_evs(stdin, a);
                sfx = read_evs(stdin, 1);
                src.suffix = sfx[0].data; src.suffix_len = sfx[0].len;
                for (len = 0; len <= b; ++len) tot += ipow(a, len);
                src.total = tot > pk ? (tot - pk + pn - 1) / pn : 0;
            }
            do_sweep(h, nh, &src, rep);
            free_evs(h, nh);
            if (src.list) free_evs(src.list, src.n);
            if (src.tok) free_evs(src.tok, src.ntok);
            if (sfx) free_evs(sfx, 1);
        } else if (!strncmp(hdr, "QUIT", 4)) {
            break;
        } else {
            fprintf(stderr, "bad request %s", hdr);
            return 3;
        }
    }
    return 0;
}
