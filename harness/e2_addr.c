/* e2_addr.c - exhaustive enumerations over the address printer / parser / mask test (C12, C13).
 *
 *  core_vh addr ntop              all 6^8 group-abstraction addresses + IPv4 forms: round-trip oracles
 *  core_vh addr mask              irc_check_mask: every group x every 16-bit difference x every length
 *  core_vh addr pton L k n        every string of length <= L over the address alphabet (part k of n)
 *  core_vh addr ptonfile          strings on stdin -> parse results on stdout (for the Python reference)
 */
#include "modules/iauth.h"
#include <arpa/inet.h>

static const char *hex16(const irc_inaddr *a, char *buf)
{
    int k;
    for (k = 0; k < 16; ++k) sprintf(buf + 2 * k, "%02x", a->in6_8[k]);
    return buf;
}

struct vclass { const char *name; long count; int shown; };
#define MAXSHOW 12
static void report(struct vclass *c, const char *fmt, ...)
{
    va_list ap;
    c->count++;
    if (c->shown >= MAXSHOW) return;
    c->shown++;
    printf("{\"violation\":{\"class\":\"%s\",\"detail\":\"", c->name);
    va_start(ap, fmt);
    vprintf(fmt, ap);
    va_end(ap);
    printf("\"}}\n");
}

/* ---- C12 ------------------------------------------------------------------------------------------ */
static struct vclass v_len = {"ntop/length", 0, 0}, v_colon = {"ntop/leading-colon", 0, 0}, v_ownrej = {"ntop/own-parser-rejects", 0, 0},
    v_owndiff = {"ntop/own-parser-differs", 0, 0}, v_librej = {"ntop/libc-rejects", 0, 0}, v_libdiff = {"ntop/libc-differs", 0, 0},
    v_idem = {"ntop/not-idempotent", 0, 0};
static long n_addr, n_strings, n_idem_strings;

/* The oracle's own IPv4 predicate, written from the documentation (::a.b.c.d and ::ffff:a.b.c.d with a non-zero upper half are printed as a
 * dotted quad, which reads back as the mapped form) - not the tree's irc_inaddr_is_ipv4 macro, which is part of what is being checked. */
static int vh_is_ipv4(const irc_inaddr *a)
{
    return !a->in6[0] && !a->in6[1] && !a->in6[2] && !a->in6[3] && !a->in6[4] && a->in6[6] && (!a->in6[5] || a->in6[5] == 65535);
}

static void canon(irc_inaddr *a)
{
    if (vh_is_ipv4(a))
        a->in6[5] = 65535;
}

static int libc_parse(const char *t, irc_inaddr *out)
{
    memset(out, 0, sizeof(*out));
    if (strchr(t, ':'))
        return inet_pton(AF_INET6, t, out->in6_8) == 1;
    if (inet_pton(AF_INET, t, out->in6_8 + 12) == 1) {
        out->in6[5] = 65535;
        return 1;
    }
    return 0;
}

static void idem_check(const char *s)
{
    irc_inaddr p, q;
    char t1[64], t2[64];
    unsigned int r;
    n_idem_strings++;
    r = irc_pton(&p, NULL, s, 0);
    if (r == 0 || r != strlen(s))
        return; /* not accepted as a plain address */
    irc_ntop(t1, IRC_NTOP_MAX, &p);
    r = irc_pton(&q, NULL, t1, 0);
    if (r == 0 || r != strlen(t1)) {
        report(&v_idem, "%s parses, prints as %s, which the parser then rejects", s, t1);
        return;
    }
    irc_ntop(t2, IRC_NTOP_MAX, &q);
    if (strcmp(t1, t2))
        report(&v_idem, "%s -> %s -> %s", s, t1, t2);
}

static void check_addr(const irc_inaddr *a)
{
    char guard[IRC_NTOP_MAX + 16], *t = guard + 8, hb1[40], hb2[40], alt[80];
    irc_inaddr want = *a, got, lib;
    unsigned int n, r;
    int k;

    n_addr++;
    memset(guard, 0x7e, sizeof(guard));
    n = irc_ntop(t, IRC_NTOP_MAX, a);
    n_strings++;
    for (k = 0; k < 8; ++k)
        if ((unsigned char)guard[k] != 0x7e || (unsigned char)guard[8 + IRC_NTOP_MAX + k] != 0x7e) {
            report(&v_len, "%s: printer wrote outside its %d-byte buffer", hex16(a, hb1), IRC_NTOP_MAX);
            return;
        }
    if (n >= IRC_NTOP_MAX || n != strlen(t)) {
        report(&v_len, "%s: returned length %u, text length %zu, limit %d", hex16(a, hb1), n, strlen(t), IRC_NTOP_MAX - 1);
        return;
    }
    if (t[0] == ':')
        report(&v_colon, "%s prints as %s", hex16(a, hb1), t);
    canon(&want);
    r = irc_pton(&got, NULL, t, 0);
    if (r == 0 || r != strlen(t))
        report(&v_ownrej, "%s prints as %s, which irc_pton does not accept (returned %u)", hex16(a, hb1), t, r);
    else if (memcmp(&got, &want, sizeof(got)))
        report(&v_owndiff, "%s prints as %s, which irc_pton reads as %s", hex16(&want, hb1), t, hex16(&got, hb2));
    if (!libc_parse(t, &lib))
        report(&v_librej, "%s prints as %s, which inet_pton rejects", hex16(a, hb1), t);
    else {
        irc_inaddr l2 = lib;
        canon(&l2);
        if (memcmp(&l2, &want, sizeof(lib)))
            report(&v_libdiff, "%s prints as %s, which inet_pton reads as %s", hex16(&want, hb1), t, hex16(&lib, hb2));
    }
    /* idempotence over alternative spellings */
    idem_check(t);
    if (inet_ntop(AF_INET6, a->in6_8, alt, sizeof(alt)))
        idem_check(alt);
    for (k = 0; t[k]; ++k) alt[k] = toupper((unsigned char)t[k]);
    alt[k] = '\0';
    idem_check(alt);
    sprintf(alt, "%04x:%04x:%04x:%04x:%04x:%04x:%04x:%04x", ntohs(a->in6[0]), ntohs(a->in6[1]), ntohs(a->in6[2]), ntohs(a->in6[3]),
            ntohs(a->in6[4]), ntohs(a->in6[5]), ntohs(a->in6[6]), ntohs(a->in6[7]));
    idem_check(alt);
}

static int do_ntop(int thorough, int part, int nparts)
{
    static const unsigned vals_q[6] = { 0, 0x1, 0x10, 0x100, 0x1000, 0xffff };
    static const unsigned vals_t[9] = { 0, 0x1, 0xf, 0x10, 0xff, 0x100, 0xfff, 0x1000, 0xffff };
    const unsigned *vals = thorough ? vals_t : vals_q;
    const int NV = thorough ? 9 : 6;
    static const unsigned octs[7] = { 0, 1, 9, 10, 99, 100, 255 };
    irc_inaddr a;
    int g[8], k, o[4];
    long total_abs = 0;

    for (g[0] = 0; g[0] < NV; ++g[0]) for (g[1] = 0; g[1] < NV; ++g[1]) for (g[2] = 0; g[2] < NV; ++g[2]) for (g[3] = 0; g[3] < NV; ++g[3])
    for (g[4] = 0; g[4] < NV; ++g[4]) for (g[5] = 0; g[5] < NV; ++g[5]) for (g[6] = 0; g[6] < NV; ++g[6]) for (g[7] = 0; g[7] < NV; ++g[7]) {
        if (((g[0] * NV + g[1]) % nparts) != part) continue;
        for (k = 0; k < 8; ++k) a.in6[k] = htons(vals[g[k]]);
        check_addr(&a);
        total_abs++;
    }
    /* IPv4-mapped and IPv4-compatible forms */
    for (k = 0; k < 2 && part == 0; ++k)
        for (o[0] = 0; o[0] < 7; ++o[0]) for (o[1] = 0; o[1] < 7; ++o[1]) for (o[2] = 0; o[2] < 7; ++o[2]) for (o[3] = 0; o[3] < 7; ++o[3]) {
            memset(&a, 0, sizeof(a));
            a.in6[5] = k ? 65535 : 0;
            a.in6_8[12] = octs[o[0]]; a.in6_8[13] = octs[o[1]]; a.in6_8[14] = octs[o[2]]; a.in6_8[15] = octs[o[3]];
            check_addr(&a);
        }
    /* boundary forms of the IPv4 predicate */
    {
        static const unsigned short b[][8] = {
            {0,0,0,0,0,0xffff,0,0x102}, {0,0,0,0,0,0,0,0x102}, {0,0,0,0,0,1,0x102,0x304}, {0,0,0,0,1,0xffff,0x102,0x304},
            {0,0,0,0,0,0xfffe,0x102,0x304}, {0,0,0,1,0,0xffff,0x102,0x304}, {0,0,0,0,0,0,0,0}, {0,0,0,0,0,0,0,1}, {0,0,0,0,0,0xffff,0,0},
            {0xffff,0xffff,0xffff,0xffff,0xffff,0xffff,0xffff,0xffff}, {0x1000,0x1000,0x1000,0x1000,0x1000,0x1000,0x1000,0x1000} };
        unsigned n;
        for (n = 0; n < sizeof(b) / sizeof(b[0]) && part == 0; ++n) {
            for (k = 0; k < 8; ++k) a.in6[k] = htons(b[n][k]);
            check_addr(&a);
        }
    }
    printf("{\"summary\":{\"addresses\":%ld,\"abstraction_points\":%ld,\"idempotence_strings\":%ld,"
           "\"classes\":{\"%s\":%ld,\"%s\":%ld,\"%s\":%ld,\"%s\":%ld,\"%s\":%ld,\"%s\":%ld,\"%s\":%ld}}}\n",
           n_addr, total_abs, n_idem_strings, v_len.name, v_len.count, v_colon.name, v_colon.count, v_ownrej.name, v_ownrej.count,
           v_owndiff.name, v_owndiff.count, v_librej.name, v_librej.count, v_libdiff.name, v_libdiff.count, v_idem.name, v_idem.count);
    return 0;
}

/* ---- C13.1 ---------------------------------------------------------------------------------------- */
static struct vclass v_mask = {"mask/wrong-answer", 0, 0};

static unsigned first_diff_bit(const irc_inaddr *a, const irc_inaddr *b)
{
    unsigned k;
    for (k = 0; k < 128; ++k) {
        unsigned byte = k / 8, bit = 7 - (k % 8);
        if (((a->in6_8[byte] >> bit) & 1) != ((b->in6_8[byte] >> bit) & 1))
            return k;
    }
    return 128;
}

static long mask_calls;
static void mask_case(const irc_inaddr *c, const irc_inaddr *m)
{
    static const unsigned extra[3] = { 129, 200, 1u << 31 };
    unsigned fd = first_diff_bit(c, m), bits, k;
    char hb1[40], hb2[40];
    for (bits = 0; bits <= 128; ++bits) {
        unsigned got = irc_check_mask(c, m, bits), want = (bits <= fd);
        mask_calls++;
        if (!!got != want)
            report(&v_mask, "check %s mask %s bits %u: got %u, leading bits %s", hex16(c, hb1), hex16(m, hb2), bits, got, want ? "equal" : "differ");
    }
    for (k = 0; k < 3; ++k) {
        unsigned got = irc_check_mask(c, m, extra[k]), want = (fd == 128);
        mask_calls++;
        if (!!got != want)
            report(&v_mask, "check %s mask %s bits %u: got %u, all 128 bits %s", hex16(c, hb1), hex16(m, hb2), extra[k], got, want ? "equal" : "differ");
    }
}

static int do_mask(void)
{
    /* the last two: an IPv6 address that merely has ffff in its sixth group, and an IPv4-mapped one (whatever shortcut the matcher takes for "IPv4" must still
     * compare the leading groups) */
    static const unsigned short bases[4][8] = { {0,0,0,0,0,0,0,0}, {0xa5a5,0x5a5a,0xffff,0x0001,0x8000,0x1234,0xfedc,0x00ff},
                                                {0x2001,0x0db8,0,0,0,0xffff,0x0a00,0x0001}, {0,0,0,0,0,0xffff,0xc0a8,0x6401} };
    static const unsigned dd[3] = { 1, 0x8000, 0xffff };
    irc_inaddr c, m;
    unsigned b, g, g2, d, k, x, y;
    for (b = 0; b < 4; ++b) {
        for (k = 0; k < 8; ++k) c.in6[k] = htons(bases[b][k]);
        for (g = 0; g < 8; ++g)
            for (d = 0; d < 65536; ++d) {
                m = c;
                m.in6[g] = htons(bases[b][g] ^ d);
                mask_case(&c, &m);
            }
        for (g = 0; g < 8; ++g) for (g2 = g + 1; g2 < 8; ++g2) for (x = 0; x < 3; ++x) for (y = 0; y < 3; ++y) {
            m = c;
            m.in6[g] = htons(bases[b][g] ^ dd[x]);
            m.in6[g2] = htons(bases[b][g2] ^ dd[y]);
            mask_case(&c, &m);
        }
    }
    printf("{\"summary\":{\"mask_calls\":%ld,\"classes\":{\"%s\":%ld}}}\n", mask_calls, v_mask.name, v_mask.count);
    return 0;
}

/* ---- C13.2 ---------------------------------------------------------------------------------------- */
static struct vclass v_ret = {"pton/return-exceeds-length", 0, 0}, v_agree = {"pton/disagrees-with-libc", 0, 0}, v_bits = {"pton/prefix-length-not-set", 0, 0};
static long n_calls, n_accept_plain, n_accept_mask, n_both, n_nontrivial;

static void pton_string(const char *s, size_t len)
{
    /* exactly-sized heap copies: ASan catches any read past the terminator or write outside the results */
    char *in = malloc(len + 1);
    irc_inaddr *out = malloc(sizeof(*out));
    unsigned int *bits = malloc(sizeof(*bits));
    unsigned int r, mode;
    irc_inaddr lib, plain;
    int plain_ok = 0;
    char hb1[40], hb2[40];

    memcpy(in, s, len + 1);
    for (mode = 0; mode < 4; ++mode) {
        *bits = 0xdeadbeef;
        r = irc_pton(out, (mode & 1) ? bits : NULL, in, (mode & 2) ? 1 : 0);
        n_calls++;
        if (r > len)
            report(&v_ret, "'%s' (mode %u) returned %u > length %zu", s, mode, r, len);
        if (mode == 1 && r == len && r > 0 && *bits > 128)
            report(&v_bits, "'%s' (mode %u) accepted (%u characters) but the prefix length is %s", s, mode, r, *bits == 0xdeadbeef ? "left unset" : "above 128");
        if (mode == 0 && r == len && r > 0) { plain_ok = 1; plain = *out; n_accept_plain++; }
        if (mode == 1 && r == len && r > 0) n_accept_mask++;
    }
    if (len > 1 && s[0] != '/' && s[0] != '*') n_nontrivial++;
    if (plain_ok && libc_parse(s, &lib)) {
        irc_inaddr p2 = plain, l2 = lib;
        n_both++;
        /* IPv4-compatible canonicalises to mapped on both sides before comparing */
        canon(&p2); canon(&l2);
        if (memcmp(&p2, &l2, sizeof(p2)))
            report(&v_agree, "'%s': irc_pton reads %s, inet_pton reads %s", s, hex16(&plain, hb1), hex16(&lib, hb2));
    }
    free(in); free(out); free(bits);
}

static int do_pton(int maxlen, int part, int nparts)
{
    static const char alpha[] = "0125 9af:./*";
    const char *A = "01259af:./*";
    int na = (int)strlen(A), len;
    char s[16];
    long idx = 0;
    (void)alpha;
    for (len = 0; len <= maxlen; ++len) {
        int d[16] = {0}, k;
        for (;;) {
            if ((idx++ % nparts) == part) {
                for (k = 0; k < len; ++k) s[k] = A[d[k]];
                s[len] = '\0';
                pton_string(s, len);
            }
            for (k = len - 1; k >= 0; --k) {
                if (++d[k] < na) break;
                d[k] = 0;
            }
            if (k < 0) break;
        }
    }
    printf("{\"summary\":{\"strings_total\":%ld,\"calls\":%ld,\"accepted_plain\":%ld,\"accepted_with_mask\":%ld,\"both_parsers_accept\":%ld,\"nontrivial\":%ld,"
           "\"classes\":{\"%s\":%ld,\"%s\":%ld,\"%s\":%ld}}}\n", idx, n_calls, n_accept_plain, n_accept_mask, n_both, n_nontrivial,
           v_ret.name, v_ret.count, v_agree.name, v_agree.count, v_bits.name, v_bits.count);
    return 0;
}

static int do_ptonfile(void)
{
    char line[512], hb[40];
    while (fgets(line, sizeof(line), stdin)) {
        size_t len = strlen(line);
        char *in;
        irc_inaddr *out = malloc(sizeof(*out));
        unsigned int *bits = malloc(sizeof(*bits)), r0, r1;
        irc_inaddr plain;
        if (len && line[len - 1] == '\n') line[--len] = '\0';
        in = malloc(len + 1);
        memcpy(in, line, len + 1);
        r0 = irc_pton(out, NULL, in, 0);
        plain = *out;
        *bits = 0xdeadbeef;
        r1 = irc_pton(out, bits, in, 0);
        printf("%u %s %u %u ", r0, hex16(&plain, hb), r1, *bits);
        printf("%s\n", hex16(out, hb));
        free(in); free(out); free(bits);
    }
    return 0;
}

int e2_addr_main(int argc, char **argv)
{
    if (argc >= 2 && !strcmp(argv[1], "ntop")) return do_ntop(argc > 2 && argv[2][0] == 't', argc > 3 ? atoi(argv[3]) : 0, argc > 4 ? atoi(argv[4]) : 1);
    if (argc >= 2 && !strcmp(argv[1], "mask")) return do_mask();
    if (argc >= 5 && !strcmp(argv[1], "pton")) return do_pton(atoi(argv[2]), atoi(argv[3]), atoi(argv[4]));
    if (argc >= 2 && !strcmp(argv[1], "ptonfile")) return do_ptonfile();
    fprintf(stderr, "usage: core_vh addr ntop|mask|pton L k n|ptonfile\n");
    return 2;
}
