/* e2_set.c - explicit-state search over the real splay-tree set (property C19).
 *
 * State   = the real structure, rebuilt by replaying an operation history on a fresh set; keyed by its
 *           canonical shape (pre-order of key indices with null markers).
 * Events  = insert(k) / remove(p, dispose?) / find(p) / lower(p) / clear(dispose?) over a 7-key universe
 *           and probes in every gap.
 * Oracle  = sorted-array reference under the *mathematical* order of the keys + structural audit +
 *           cleanup ledger; ASan/LSan for double free / use after free / leaks.
 *
 * usage: core_vh set bfs <domain> [maxstates]
 *        core_vh set replay <domain> <op>...      (op = i3 r5 R5 f2 l2 c C; see op_name)
 */
#include "src/common.h"
#include <sys/mman.h>
#include <stdint.h>

#define NK 7
#define MAXP 24
#define MAXHIST 64

struct elem {
    union { int i; char *s; void *p; } key;
    int idx;     /* key index 0..NK-1 */
    int serial;  /* instance number, for the cleanup ledger */
};

struct probe {
    union { int i; char *s; void *p; } key;
    int pos;     /* 2*idx for an exact key, odd for a gap, -1 below everything */
};

struct domain {
    const char *name;
    set_compare_f *cmp;
    int is_ptr;          /* set_compare_ptr: the element address is the key */
    int nprobes;
    struct probe probes[MAXP];
    union { int i; char *s; void *p; } keys[NK];
    struct set_node *fixed_nodes[NK]; /* is_ptr only */
};

static struct domain dom;

/* ---- ledger -------------------------------------------------------------------------------- */
#define MAXSER 4096
static int cleanup_calls[MAXSER];
static int next_serial;
static void elem_cleanup(void *p)
{
    struct elem *e = p;
    if (e->serial >= 0 && e->serial < MAXSER)
        cleanup_calls[e->serial]++;
}

/* ---- reference model ------------------------------------------------------------------------ */
struct ref {
    int present[NK];
    int serial[NK];
    struct set_node *node[NK];
};

/* ---- ops ------------------------------------------------------------------------------------ */
enum { OP_INSERT, OP_REMOVE_D, OP_REMOVE_ND, OP_FIND, OP_LOWER, OP_CLEAR_D, OP_CLEAR_ND };
struct op { unsigned char type, arg; };

static void op_name(struct op o, char *buf)
{
    static const char t[] = "irRflcC";
    if (o.type >= OP_CLEAR_D) sprintf(buf, "%c", t[o.type]);
    else sprintf(buf, "%c%d", t[o.type], o.arg);
}

static int op_parse(const char *s, struct op *o)
{
    static const char t[] = "irRflcC";
    const char *p = strchr(t, s[0]);
    if (!p || !s[0]) return -1;
    o->type = p - t;
    o->arg = s[1] ? atoi(s + 1) : 0;
    return 0;
}

static const void *probe_datum(int j)
{
    if (dom.is_ptr)
        return dom.probes[j].key.p;      /* the pointer itself is the datum */
    return &dom.probes[j].key;
}

/* ---- violations ----------------------------------------------------------------------------- */
static char viol_buf[2048];
static int viol;
static void fail(const char *fmt, ...)
{
    va_list ap;
    if (viol) return; /* keep the first */
    va_start(ap, fmt);
    vsnprintf(viol_buf, sizeof(viol_buf), fmt, ap);
    va_end(ap);
    viol = 1;
}

/* ---- audit ---------------------------------------------------------------------------------- */
static int audit_seq[NK + 2];
static int audit_n;

static int elem_idx(struct set_node *n) { return ((struct elem *)set_node_data(n))->idx; }

static void audit_walk(struct set_node *n, int lo, int hi, int depth)
{
    if (!n || viol) return;
    if (depth > NK + 1 || audit_n > NK) { fail("audit: tree has a cycle or too many nodes"); return; }
    int k = elem_idx(n);
    if (k < 0 || k >= NK) { fail("audit: node with bad key index %d", k); return; }
    if (k <= lo || k >= hi) { fail("audit: search-tree order broken at key %d (bounds %d..%d)", k, lo, hi); return; }
    audit_walk(n->l, lo, k, depth + 1);
    if (audit_n <= NK) audit_seq[audit_n++] = k;
    audit_walk(n->r, k, hi, depth + 1);
}

static void canon_walk(struct set_node *n, char **p, int depth)
{
    if (!n || depth > NK + 1) { *(*p)++ = '.'; return; }
    *(*p)++ = '0' + elem_idx(n);
    canon_walk(n->l, p, depth + 1);
    canon_walk(n->r, p, depth + 1);
}

static void canon(struct set *s, char *buf)
{
    char *p = buf;
    canon_walk(s->root, &p, 0);
    *p = '\0';
}

static void audit(struct set *s, struct ref *r, const char *when)
{
    struct set_node *n, *last = NULL;
    int ii, cnt = 0, nref = 0;

    if (viol) return;
    audit_n = 0;
    audit_walk(s->root, -1, NK, 0);
    if (viol) return;
    for (ii = 0; ii < NK; ++ii) nref += r->present[ii];
    if (audit_n != nref) { fail("%s: tree holds %d nodes, reference holds %d", when, audit_n, nref); return; }
    if ((int)set_size(s) != nref) { fail("%s: set_size()=%u, reference %d", when, set_size(s), nref); return; }
    for (ii = 0; ii < audit_n; ++ii) {
        int k = audit_seq[ii];
        if (!r->present[k]) { fail("%s: key %d in tree but not in reference", when, k); return; }
    }
    /* in-order walk == first/next list */
    for (n = set_first(s), cnt = 0; n; n = set_next(n)) {
        if (cnt >= audit_n) { fail("%s: next-list longer than tree (%d nodes)", when, audit_n); return; }
        if (elem_idx(n) != audit_seq[cnt]) { fail("%s: next-list item %d is key %d, in-order walk has %d", when, cnt, elem_idx(n), audit_seq[cnt]); return; }
        if (set_prev(n) != last) { fail("%s: prev pointer of key %d does not point to its predecessor", when, elem_idx(n)); return; }
        if (r->node[elem_idx(n)] != n) { fail("%s: key %d is held by a node that is not the most recently inserted one", when, elem_idx(n)); return; }
        if (((struct elem *)set_node_data(n))->serial != r->serial[elem_idx(n)]) { fail("%s: key %d has a stale element instance", when, elem_idx(n)); return; }
        last = n;
        cnt++;
    }
    if (cnt != audit_n) { fail("%s: next-list has %d items, tree has %d", when, cnt, audit_n); return; }
    /* backward walk from the last node */
    for (n = last, cnt = audit_n; n; n = set_prev(n)) {
        if (cnt <= 0) { fail("%s: prev-list longer than tree", when); return; }
        --cnt;
        if (elem_idx(n) != audit_seq[cnt]) { fail("%s: prev-list item is key %d, expected %d", when, elem_idx(n), audit_seq[cnt]); return; }
    }
    if (cnt != 0) { fail("%s: prev-list shorter than tree", when); return; }
}

/* ---- applying one operation ----------------------------------------------------------------- */
static struct set_node *new_node(int k)
{
    struct set_node *n;
    struct elem *e;
    if (dom.is_ptr) {
        n = dom.fixed_nodes[k];
        memset(n, 0xa5, sizeof(*n)); /* stale garbage: insert must initialise the links */
    } else {
        n = set_node_alloc(sizeof(struct elem));
        memset(n, 0xa5, sizeof(*n));
    }
    e = set_node_data(n);
    memset(e, 0, sizeof(*e));
    if (!dom.is_ptr) memcpy(&e->key, &dom.keys[k], sizeof(e->key));
    e->idx = k;
    e->serial = next_serial++;
    return n;
}

static void free_node(struct set_node *n)
{
    if (!dom.is_ptr) free(n);
}

static int ref_lower(struct ref *r, int pos)
{
    int k;
    for (k = 0; k < NK; ++k)
        if (r->present[k] && 2 * k >= pos) return k;
    return -1;
}

static void apply(struct set *s, struct ref *r, struct op o, int check)
{
    int ser0 = next_serial, ii, k, pos, exp_clean[NK + 1], n_exp = 0;
    char nm[16];
    op_name(o, nm);
    memset(cleanup_calls, 0, sizeof(int) * (next_serial + 2 < MAXSER ? next_serial + 2 : MAXSER));
    (void)ser0;

    switch (o.type) {
    case OP_INSERT: {
        struct set_node *n;
        k = o.arg;
        n = new_node(k);
        if (r->present[k]) exp_clean[n_exp++] = r->serial[k];
        set_insert(s, n);
        r->present[k] = 1; r->serial[k] = ((struct elem *)set_node_data(n))->serial; r->node[k] = n;
        break;
    }
    case OP_REMOVE_D: case OP_REMOVE_ND: {
        int res, nd = (o.type == OP_REMOVE_ND);
        pos = dom.probes[o.arg].pos;
        k = (pos >= 0 && !(pos & 1)) ? pos / 2 : -1;
        res = set_remove(s, (void *)probe_datum(o.arg), nd);
        if (check) {
            int want = (k >= 0 && r->present[k]);
            if (!!res != want) fail("%s: set_remove returned %d, expected %d", nm, res, want);
        }
        if (k >= 0 && r->present[k]) {
            if (!nd) exp_clean[n_exp++] = r->serial[k];
            else if (!viol) free_node(r->node[k]);
            r->present[k] = 0; r->node[k] = NULL;
        }
        break;
    }
    case OP_FIND: {
        struct elem *e;
        pos = dom.probes[o.arg].pos;
        k = (pos >= 0 && !(pos & 1)) ? pos / 2 : -1;
        e = set_find(s, probe_datum(o.arg));
        if (check) {
            if (k >= 0 && r->present[k]) {
                if (!e) fail("%s: set_find missed key %d which is in the set", nm, k);
                else if (e != set_node_data(r->node[k])) fail("%s: set_find returned the wrong element for key %d", nm, k);
            } else if (e)
                fail("%s: set_find returned key %d for a probe that is not in the set", nm, e->idx);
        }
        break;
    }
    case OP_LOWER: {
        struct set_node *n;
        int want;
        pos = dom.probes[o.arg].pos;
        n = set_lower(s, probe_datum(o.arg));
        want = ref_lower(r, pos);
        if (check) {
            if (want < 0 && n) fail("%s: set_lower returned key %d, expected none", nm, elem_idx(n));
            else if (want >= 0 && !n) fail("%s: set_lower returned none, expected key %d", nm, want);
            else if (want >= 0 && n != r->node[want]) fail("%s: set_lower returned key %d, expected %d", nm, elem_idx(n), want);
        }
        break;
    }
    case OP_CLEAR_D: case OP_CLEAR_ND: {
        int nd = (o.type == OP_CLEAR_ND);
        set_clear(s, nd);
        for (k = 0; k < NK; ++k) if (r->present[k]) {
            if (!nd) exp_clean[n_exp++] = r->serial[k];
            else free_node(r->node[k]);
            r->present[k] = 0; r->node[k] = NULL;
        }
        break;
    }
    }

    if (check && !viol) {
        /* cleanup ledger: exactly the expected instances, exactly once each */
        int total = 0;
        for (ii = 0; ii < next_serial && ii < MAXSER; ++ii) total += cleanup_calls[ii];
        for (ii = 0; ii < n_exp; ++ii) {
            int c = cleanup_calls[exp_clean[ii]];
            if (c != 1) fail("%s: cleanup ran %d times for the element removed/replaced (instance %d), expected once", nm, c, exp_clean[ii]);
        }
        if (!viol && total != n_exp)
            fail("%s: cleanup ran %d times in total, expected %d (ran on an element that was not disposed of)", nm, total, n_exp);
    }
}

/* ---- building a state from a history --------------------------------------------------------- */
/* 0: the set comes from set_alloc(); 1: a zero-filled struct set whose compare/cleanup members are assigned by the owner, which is how
 * src/log.c, src/module.c and src/config.c make every set the daemon core uses */
static int embedded_set;

static struct set *make_set(void)
{
    struct set *s;
    if (!embedded_set)
        return set_alloc(dom.cmp, elem_cleanup);
    s = calloc(1, sizeof(*s));
    s->compare = dom.cmp;
    s->cleanup = elem_cleanup;
    return s;
}

static struct set *build(const struct op *hist, int n, struct ref *r, int check_all)
{
    struct set *s = make_set();
    int ii;
    memset(r, 0, sizeof(*r));
    next_serial = 0;
    for (ii = 0; ii < n && !viol; ++ii) {
        apply(s, r, hist[ii], check_all);
        if (check_all) audit(s, r, "after step");
    }
    return s;
}

static void destroy(struct set *s, struct ref *r)
{
    int k;
    if (viol) { /* structure may be corrupt: leak rather than crash; the run fails anyway */ return; }
    if (dom.is_ptr) {
        set_clear(s, 1);
        for (k = 0; k < NK; ++k) r->present[k] = 0;
    } else {
        set_clear(s, 0);
    }
    free(s);
}

/* ---- domains --------------------------------------------------------------------------------- */
static void add_probe_i(int v, int pos) { dom.probes[dom.nprobes].key.i = v; dom.probes[dom.nprobes++].pos = pos; }
static void add_probe_s(const char *v, int pos) { dom.probes[dom.nprobes].key.s = (char *)v; dom.probes[dom.nprobes++].pos = pos; }
static void add_probe_p(void *v, int pos) { dom.probes[dom.nprobes].key.p = v; dom.probes[dom.nprobes++].pos = pos; }

static void *map_at(uintptr_t want, size_t len)
{
    void *p = mmap((void *)want, len, PROT_READ | PROT_WRITE, MAP_PRIVATE | MAP_ANONYMOUS | MAP_FIXED_NOREPLACE, -1, 0);
    if (p == MAP_FAILED || (uintptr_t)p != want) {
        if (p != MAP_FAILED) munmap(p, len);
        return NULL;
    }
    return p;
}

static int setup_domain(const char *name)
{
    int k;
    static char base[32];
    const char *at = strchr(name, '@');
    memset(&dom, 0, sizeof(dom));
    dom.name = name;
    embedded_set = 0;
    if (at && !strcmp(at, "@embedded")) {
        embedded_set = 1;
        snprintf(base, sizeof(base), "%.*s", (int)(at - name), name);
        name = base;
    }
    if (!strcmp(name, "int-small")) {
        dom.cmp = set_compare_int;
        for (k = 0; k < NK; ++k) { dom.keys[k].i = 10 * (k + 1); }
        for (k = 0; k <= 2 * NK; ++k) add_probe_i(5 * (k + 1), k - 1);
    } else if (!strcmp(name, "int-extreme")) {
        static const int ks[NK] = { INT_MIN, INT_MIN + 1, -2, 0, 2, INT_MAX - 1, INT_MAX };
        dom.cmp = set_compare_int;
        for (k = 0; k < NK; ++k) { dom.keys[k].i = ks[k]; add_probe_i(ks[k], 2 * k); }
        add_probe_i(-1000000, 3); add_probe_i(-1, 5); add_probe_i(1, 7); add_probe_i(1000000, 9);
    } else if (!strcmp(name, "charp")) {
        /* the last key contains byte 0xff (a comparator must treat it as an unsigned character on both sides) */
        static const char *ks[NK] = { "a", "AB", "abc", "B", "ba", "C", "c\xff" };
        static const char *alt[NK] = { "A", "ab", "ABC", "b", "BA", "c", "C\xff" };
        static const char *gaps[NK + 1] = { "", "aa", "abb", "abd", "b0", "bb", "c0", "c\xff\x01" };
        dom.cmp = set_compare_charp;
        for (k = 0; k < NK; ++k) { dom.keys[k].s = (char *)ks[k]; add_probe_s(alt[k], 2 * k); }
        for (k = 0; k <= NK; ++k) add_probe_s(gaps[k], 2 * k - 1);
    } else if (!strcmp(name, "voidp")) {
        static const uintptr_t ks[NK] = { 0x0, 0x10, 0x1000, 0x7fffffffffffffffull, 0x8000000000000000ull, 0xfffffffffffffff0ull, 0xffffffffffffffffull };
        static const uintptr_t gaps[4] = { 0x8, 0x100, 0x10000, 0xfffffffffffffff8ull };
        static const int gpos[4] = { 1, 3, 5, 11 };
        dom.cmp = set_compare_voidp;
        for (k = 0; k < NK; ++k) { dom.keys[k].p = (void *)ks[k]; add_probe_p((void *)ks[k], 2 * k); }
        for (k = 0; k < 4; ++k) add_probe_p((void *)gaps[k], gpos[k]);
    } else if (!strcmp(name, "ptr")) {
        /* elements at both ends of the usable address space; the element address is the key */
        char *lo = map_at(0x20000, 4096), *hi = map_at(0x7ffd00000000ull, 4096);
        size_t step = 256;
        dom.cmp = set_compare_ptr;
        dom.is_ptr = 1;
        if (!lo) lo = mmap(NULL, 4096, PROT_READ | PROT_WRITE, MAP_PRIVATE | MAP_ANONYMOUS, -1, 0);
        if (!hi) hi = mmap(NULL, 4096, PROT_READ | PROT_WRITE, MAP_PRIVATE | MAP_ANONYMOUS, -1, 0);
        if (lo > hi) { char *t = lo; lo = hi; hi = t; }
        for (k = 0; k < NK; ++k) {
            char *base = (k < 3) ? lo + step * (k + 1) : hi + step * (k - 2);
            dom.fixed_nodes[k] = (struct set_node *)base;
            add_probe_p(set_node_data(dom.fixed_nodes[k]), 2 * k);
        }
        add_probe_p(lo + 8, -1);
        for (k = 0; k < NK; ++k) {
            char *d = set_node_data(dom.fixed_nodes[k]);
            add_probe_p(d + 64, 2 * k + 1);
        }
    } else
        return -1;
    return 0;
}

/* ---- BFS ------------------------------------------------------------------------------------- */
struct state {
    char key[40];
    int parent;
    struct op op;
    int depth;
    struct state *hnext;
};

#define HBITS 16
static struct state *htab[1 << HBITS];
static struct state *states;
static int nstates, capstates;

static unsigned hash_str(const char *s) { unsigned h = 2166136261u; for (; *s; ++s) h = (h ^ (unsigned char)*s) * 16777619u; return h & ((1u << HBITS) - 1); }

static int state_find(const char *key)
{
    struct state *st;
    for (st = htab[hash_str(key)]; st; st = st->hnext)
        if (!strcmp(st->key, key)) return st - states;
    return -1;
}

static int state_add(const char *key, int parent, struct op op, int depth)
{
    struct state *st;
    unsigned h;
    if (nstates == capstates) { fprintf(stderr, "state table full\n"); exit(2); }
    st = &states[nstates];
    snprintf(st->key, sizeof(st->key), "%s", key);
    st->parent = parent; st->op = op; st->depth = depth;
    h = hash_str(key);
    st->hnext = htab[h]; htab[h] = st;
    return nstates++;
}

static int history_of(int si, struct op *hist)
{
    int n = states[si].depth, ii = n;
    for (; si > 0; si = states[si].parent) hist[--ii] = states[si].op;
    return n;
}

static void print_hist(FILE *f, const struct op *hist, int n)
{
    int ii; char nm[16];
    fputc('[', f);
    for (ii = 0; ii < n; ++ii) { op_name(hist[ii], nm); fprintf(f, "%s\"%s\"", ii ? "," : "", nm); }
    fputc(']', f);
}

static int gen_ops(struct ref *r, struct op *ops)
{
    int n = 0, k, j;
    for (k = 0; k < NK; ++k) {
        if (dom.is_ptr && r->present[k]) continue; /* cannot make a second element at the same address */
        ops[n].type = OP_INSERT; ops[n++].arg = k;
    }
    for (j = 0; j < dom.nprobes; ++j) {
        if (!dom.is_ptr) { ops[n].type = OP_REMOVE_D; ops[n++].arg = j; }
        ops[n].type = OP_REMOVE_ND; ops[n++].arg = j;
        ops[n].type = OP_FIND; ops[n++].arg = j;
        ops[n].type = OP_LOWER; ops[n++].arg = j;
    }
    if (!dom.is_ptr) { ops[n].type = OP_CLEAR_D; ops[n++].arg = 0; }
    ops[n].type = OP_CLEAR_ND; ops[n++].arg = 0;
    return n;
}

static int do_bfs(int maxstates, int maxviol)
{
    struct op hist[MAXHIST], ops[256];
    struct ref r;
    struct set *s;
    char key[40], nm[16];
    long transitions = 0, replays = 0;
    int si, nviol = 0, maxdepth = 0, nops, oi, n, truncated = 0;
    long opcount[7] = {0};

    capstates = maxstates;
    states = calloc(capstates, sizeof(*states));
    { struct op none = {0, 0}; state_add(".", -1, none, 0); }

    for (si = 0; si < nstates; ++si) {
        n = history_of(si, hist);
        if (n + 1 >= MAXHIST) { truncated = 1; continue; }
        /* which ops are enabled depends only on membership; get it from one replay */
        viol = 0;
        s = build(hist, n, &r, 0);
        nops = gen_ops(&r, ops);
        canon(s, key);
        if (strcmp(key, states[si].key)) {
            printf("{\"harness_error\":\"replay of state %d gave shape %s, recorded %s\"}\n", si, key, states[si].key);
            return 2;
        }
        destroy(s, &r);
        for (oi = 0; oi < nops; ++oi) {
            viol = 0;
            s = build(hist, n, &r, 0);
            replays++;
            apply(s, &r, ops[oi], 1);
            audit(s, &r, "after op");
            transitions++;
            opcount[ops[oi].type]++;
            if (viol) {
                op_name(ops[oi], nm);
                if (nviol < maxviol) {
                    printf("{\"violation\":{\"domain\":\"%s\",\"op\":\"%s\",\"optype\":%d,\"depth\":%d,\"state\":\"%s\",\"detail\":\"%s\",\"history\":", dom.name, nm, ops[oi].type, n, states[si].key, viol_buf);
                    print_hist(stdout, hist, n);
                    printf("}}\n");
                }
                nviol++;
                continue; /* do not explore beyond a broken state; structure is leaked on purpose */
            }
            canon(s, key);
            if (state_find(key) < 0) {
                if (nstates < capstates) {
                    state_add(key, si, ops[oi], n + 1);
                    if (n + 1 > maxdepth) maxdepth = n + 1;
                } else
                    truncated = 1;
            }
            destroy(s, &r);
        }
    }
    /* samples: the three deepest states' histories */
    printf("{\"summary\":{\"domain\":\"%s\",\"states\":%d,\"transitions\":%ld,\"replays\":%ld,\"max_depth\":%d,\"violations\":%d,\"exhaustive\":%s,\"probes\":%d,"
           "\"ops\":{\"insert\":%ld,\"remove_dispose\":%ld,\"remove_keep\":%ld,\"find\":%ld,\"lower\":%ld,\"clear_dispose\":%ld,\"clear_keep\":%ld},\"samples\":[",
           dom.name, nstates, transitions, replays, maxdepth, nviol, truncated ? "false" : "true", dom.nprobes,
           opcount[0], opcount[1], opcount[2], opcount[3], opcount[4], opcount[5], opcount[6]);
    for (oi = 0; oi < 3 && oi < nstates; ++oi) {
        int pick = nstates - 1 - oi * (nstates / 3);
        n = history_of(pick, hist);
        printf("%s{\"shape\":\"%s\",\"history\":", oi ? "," : "", states[pick].key);
        print_hist(stdout, hist, n);
        printf("}");
    }
    printf("]}}\n");
    free(states);
    fflush(stdout);
    if (nviol) _exit(1); /* broken structures were leaked on purpose: skip the leak report */
    return 0;
}

static int do_replay(int argc, char **argv)
{
    struct op hist[MAXHIST];
    struct ref r;
    struct set *s;
    int n = 0, ii;
    char key[40];
    for (ii = 0; ii < argc && n < MAXHIST; ++ii)
        if (op_parse(argv[ii], &hist[n++])) { fprintf(stderr, "bad op %s\n", argv[ii]); return 2; }
    viol = 0;
    s = build(hist, n, &r, 1);
    if (viol) {
        printf("VIOLATED: %s\n", viol_buf);
        fflush(stdout);
        _exit(1);
    }
    canon(s, key);
    printf("ok: final shape %s size %u\n", key, set_size(s));
    destroy(s, &r);
    return 0;
}

int e2_chain_main(int maxn, int embedded);
int e2_seq_main(int nkeys, int depth, int embedded);

int e2_set_main(int argc, char **argv)
{
    if (argc >= 3 && !strcmp(argv[1], "bfs")) {
        if (setup_domain(argv[2])) { fprintf(stderr, "unknown domain\n"); return 2; }
        return do_bfs(argc > 3 ? atoi(argv[3]) : 100000, 20);
    }
    if (argc >= 3 && !strcmp(argv[1], "replay")) {
        if (setup_domain(argv[2])) { fprintf(stderr, "unknown domain\n"); return 2; }
        return do_replay(argc - 3, argv + 3);
    }
    if (argc >= 4 && !strcmp(argv[1], "seqs"))
        return e2_seq_main(atoi(argv[2]), atoi(argv[3]), argc > 4 ? atoi(argv[4]) : 0);
    if (argc >= 3 && !strcmp(argv[1], "chains"))
        return e2_chain_main(atoi(argv[2]), argc > 3 ? atoi(argv[3]) : 0);
    fprintf(stderr, "usage: core_vh set bfs|replay <domain>[@embedded] ... | core_vh set chains <maxn> [embedded]\n");
    return 2;
}
