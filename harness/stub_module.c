/* stub_module.c - a loadable module whose behaviour is dictated by a graph file (property C20).
 * One compiled copy is installed as m1.so .. mN.so (byte copies, distinct inodes => own statics).
 *   $VH_GRAPH : text file, one line per module:  <name>: <dep> <dep> ...
 *   $VH_LOG   : event log (appended):  ctor-begin|ctor-end|post-init|dtor|running <name>
 *   $VH_RUNNER: the module that, once the loop runs, logs "running" and ends the loop cleanly
 */
#ifndef _GNU_SOURCE
#define _GNU_SOURCE 1     /* dladdr */
#endif
#include "src/common.h"
#include <fcntl.h>
#include <unistd.h>
#include <dlfcn.h>

static char my_name[64];

static void vlog(const char *what)
{
    const char *path = getenv("VH_LOG");
    char buf[160];
    int fd, n;
    if (!path) return;
    if (!my_name[0]) {
        /* a module without a constructor is never told its name: take it from the file this copy was loaded from */
        Dl_info di;
        if (dladdr((void *)vlog, &di) && di.dli_fname) {
            const char *b = strrchr(di.dli_fname, '/');
            snprintf(my_name, sizeof(my_name), "%s", b ? b + 1 : di.dli_fname);
            if (strrchr(my_name, '.')) *strrchr(my_name, '.') = '\0';
        }
    }
    fd = open(path, O_WRONLY | O_APPEND | O_CREAT, 0600);
    if (fd < 0) return;
    n = snprintf(buf, sizeof(buf), "%s %s\n", what, my_name);
    if (write(fd, buf, n) < 0) {}
    close(fd);
}

#ifndef VH_NO_CONSTRUCTOR
static void stub_running(evutil_socket_t fd, short what, void *arg)
{
    (void)fd; (void)what; (void)arg;
    vlog("running");
    clean_exit = 1;
    event_base_loopbreak(ev_base);
}
#endif

#ifndef VH_NO_CONSTRUCTOR    /* the third build is a module without the optional constructor (a leaf: it can declare nothing) */
void module_constructor(const char name[])
{
    const char *graph = getenv("VH_GRAPH"), *runner = getenv("VH_RUNNER");
    char line[512];
    FILE *f;
    size_t nl;

    snprintf(my_name, sizeof(my_name), "%s", name);
    nl = strlen(my_name);
    vlog("ctor-begin");
    if (graph && (f = fopen(graph, "r"))) {
        while (fgets(line, sizeof(line), f)) {
            char *tok, *save;
            if (strncmp(line, my_name, nl) || line[nl] != ':')
                continue;
            for (tok = strtok_r(line + nl + 1, " \t\r\n", &save); tok; tok = strtok_r(NULL, " \t\r\n", &save)) {
                /* module_depends() keeps the pointer: give it storage that outlives this call.
                 * "^name": this module declares itself a back-end of <name> (it must be unloaded after <name>). */
                if (tok[0] == '!' && !tok[1])
                    module_is_backend();          /* "!": this module declares itself a back-end (to be unloaded after ordinary modules) */
                else if (tok[0] == '^')
                    module_antidepends(strdup(tok + 1), NULL);
                else
                    module_depends(strdup(tok), NULL);
            }
        }
        fclose(f);
    }
    if (runner && !strcmp(runner, my_name)) {
        struct timeval tv = { 0, 0 };
        event_base_once(ev_base, -1, EV_TIMEOUT, stub_running, NULL, &tv);
    }
    vlog("ctor-end");
}
#endif

#ifndef VH_NO_POST_INIT      /* the second build of this file is a module without the optional post-init entry point */
void module_post_init(struct module *self)
{
    (void)self;
    vlog("post-init");
}
#endif

void module_destructor(void)
{
    vlog("dtor");
}
