/* vh_limits.h - watchdog for the forked executions of the harness.
 * A hang is judged in CPU time of the process itself (RLIMIT_CPU, SIGXCPU), so that a machine on which sixteen checks run at once
 * cannot turn a 5 ms execution into a "timeout"; a wall-clock alarm twelve times as long remains as the net for a process that
 * sleeps instead of spinning. */
#ifndef VH_LIMITS_H
#define VH_LIMITS_H
#include <sys/resource.h>
#include <sys/time.h>
#include <unistd.h>
#include <signal.h>

static inline void vh_alarm(unsigned int seconds)
{
    struct rlimit rl;
    if (getrlimit(RLIMIT_CPU, &rl) != 0)
        rl.rlim_max = RLIM_INFINITY;
    if (seconds) {
        struct rusage ru;
        unsigned long used = 0;
        if (getrusage(RUSAGE_SELF, &ru) == 0)
            used = (unsigned long)ru.ru_utime.tv_sec + (unsigned long)ru.ru_stime.tv_sec;
        rl.rlim_cur = used + seconds + 1;
    } else
        rl.rlim_cur = rl.rlim_max;
    setrlimit(RLIMIT_CPU, &rl);
    alarm(seconds * 12);
}

#define VH_IS_TIMEOUT_SIGNAL(sig) ((sig) == SIGALRM || (sig) == SIGXCPU)
#endif
