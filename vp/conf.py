"""Client for the E2 "conf" fork server (harness/e2_conf.c): the real config.c / log.c driven directly."""
import json, os, subprocess, tempfile, shutil, multiprocessing as mp, traceback
from . import build as _build
from .common import HarnessError

NULL = '\x01'
ENV = {'ASAN_OPTIONS': 'exitcode=86:abort_on_error=0:detect_leaks=0:allocator_may_return_null=1',
       'UBSAN_OPTIONS': 'print_stacktrace=0:halt_on_error=0', 'TZ': 'UTC'}


def ev(kind, data=b''):
    if isinstance(data, str):
        data = data.encode('latin-1')
    return b'%s %d\n' % (kind.encode(), len(data)) + data


def reg_string(path, default, subtype=0):
    return ('G', 's\t%d\t%s\t%s' % (subtype, path, NULL if default is None else default))

def reg_list(path, *items):
    return ('G', '\t'.join(('l', path) + items))

def reg_inaddr(path, host, service):
    return ('G', 'i\t%s\t%s\t%s' % (path, NULL if host is None else host, NULL if service is None else service))

def reg_object(path):
    return ('G', 'o\t%s' % path)

def load(data):
    return ('L', data)


class Server:
    def __init__(self, builddir=None):
        self.b = builddir or _build.build()
        self.dir = tempfile.mkdtemp(prefix='conf-', dir=self.b)
        e = dict(os.environ); e.update(ENV)
        self.errpath = os.path.join(self.dir, '.stderr')
        self.p = subprocess.Popen([os.path.join(self.b, 'core_vh'), 'conf', 'serve'], stdin=subprocess.PIPE, stdout=subprocess.PIPE,
                                  stderr=open(self.errpath, 'w'), env=e, cwd=self.dir)
        l = self.p.stdout.readline()
        if b'ready' not in l:
            raise HarnessError('conf server did not start: %r %s' % (l, open(self.errpath).read()[-1500:]))

    def _lines(self):
        while True:
            l = self.p.stdout.readline()
            if not l:
                raise HarnessError('conf server died: ' + open(self.errpath).read()[-1500:])
            o = json.loads(l.decode('latin-1'))
            yield o
            if 'end' in o:
                return

    def expand(self, hist, cands, hist_may_die=False):
        """-> (hist record, [candidate records]); a candidate record has status, rc, hooks (list), dump, emit, stderr."""
        msg = [b'EXPAND %d %d\n' % (len(hist), len(cands))] + [ev(*e) for e in hist] + [ev(*e) for e in cands]
        self.p.stdin.write(b''.join(msg)); self.p.stdin.flush()
        h, res = None, [dict() for _ in cands]
        end = None
        for o in self._lines():
            if 'h' in o:
                h = o
                h['hooks'] = [x for x in o['hooks'].split('\n') if x and not x.startswith('u:')]      # (u: = hooks put on unregistered entries: judged for idempotence only)
            elif 'c' in o:
                res[o['c']].update(o)
                res[o['c']]['hooks'] = [x for x in o['hooks'].split('\n') if x and not x.startswith('u:')]
            elif 's' in o:
                res[o['s']]['status'] = o['status']
                res[o['s']]['stderr'] = o['stderr']
            elif 'end' in o:
                end = o
        if h is None or end['end'] != 'ok':
            if hist_may_die:
                return {'died': end['end'], 'stderr': end.get('stderr', ''), 'dump': None, 'rcs': [], 'hooks': []}, res
            raise HarnessError('history replay failed in the conf server: %s %s' % (end, hist))
        for r in res:
            if 'Sanitizer' in r.get('stderr', '') and r.get('status') == 'ok':
                r['status'] = 'asan'
            if r.get('status') == 'ok' and 'dump' not in r:
                r['status'] = 'lost'
        return h, res

    def sweep_list(self, hist, blobs, report_ok=False):
        msg = [b'SWEEP %d LIST %d %d\n' % (len(hist), len(blobs), 1 if report_ok else 0)] + [ev(*e) for e in hist] + [ev('L', b) for b in blobs]
        self.p.stdin.write(b''.join(msg)); self.p.stdin.flush()
        return self._sweep_result()

    def sweep_tokens(self, hist, tokens, maxlen, k, n, suffix=b'', report_ok=False):
        msg = [b'SWEEP %d TOK %d %d %d %d %d\n' % (len(hist), len(tokens), maxlen, k, n, 1 if report_ok else 0)] + [ev(*e) for e in hist]
        msg += [ev('L', t) for t in tokens] + [ev('L', suffix)]
        self.p.stdin.write(b''.join(msg)); self.p.stdin.flush()
        return self._sweep_result()

    def _sweep_result(self):
        viol, fatal, oks, ub, end = [], [], [], [], None
        for o in self._lines():
            if 'end' in o:
                end = o
            elif 'violation' in o:
                viol.append(o['violation'])
            elif 'fatal_exit' in o:
                fatal.append(o['fatal_exit'])
            elif 'ok' in o:
                oks.append(o)
            elif 'ubsan' in o:
                ub.append(o['ubsan'])
        if end['end'] != 'ok':
            return {'driver_died': end, 'summary': end, 'violations': viol, 'fatal': fatal, 'oks': oks, 'ubsan': ub}
        return {'summary': end, 'violations': viol, 'fatal': fatal, 'oks': oks, 'ubsan': ub}

    def close(self):
        try:
            self.p.stdin.write(b'QUIT\n'); self.p.stdin.flush(); self.p.stdin.close()
            self.p.wait(timeout=5)
        except Exception:
            self.p.kill()
        shutil.rmtree(self.dir, ignore_errors=True)

    def __enter__(self):
        return self

    def __exit__(self, *a):
        self.close()


# ---- a pool of workers, each owning one server --------------------------------------------------------------------
_W = {}

def _init(builddir):
    _W['s'] = Server(builddir)

def _call(args):
    fn, item = args
    try:
        return fn(_W['s'], item)
    except HarnessError as e:
        try:
            _W['s'].close()
        except Exception:
            pass
        _W['s'] = Server(_W['s'].b)
        return {'harness_error': str(e)}
    except Exception:
        return {'harness_error': traceback.format_exc()}


class Pool:
    def __init__(self, builddir, n=16):
        self.pool = mp.get_context('fork').Pool(n, initializer=_init, initargs=(builddir,))

    def imap(self, fn, items, chunksize=1):
        return self.pool.imap_unordered(_call, ((fn, it) for it in items), chunksize=chunksize)

    def map(self, fn, items, chunksize=1):
        return self.pool.map(_call, [(fn, it) for it in items], chunksize=chunksize)

    def close(self):
        self.pool.terminate(); self.pool.join()

    def __enter__(self):
        return self

    def __exit__(self, *a):
        self.close()
