"""Engine E1 client: talks to the fork server (harness/vh_driver.c) living inside the real daemon."""
import json, os, subprocess, tempfile, shutil, itertools
from . import build as _build
from .common import HarnessError

F_DUMP, F_STATS, F_EOF, F_CONFIG, F_LSAN = 1, 2, 4, 8, 16

SERVICE_TYPES = ('login', 'login-ipr', 'dronecheck', 'combined')


def rebase_conf(conf, b):
    """A configuration text recorded in a replay file names the module directory of the build it was made with; builds are pruned, the current one serves."""
    import re
    return re.sub(r'"[^"\n]*/build/[0-9a-f]{16}/(mods-[a-z]+|stubs)"', lambda m: '"%s/%s"' % (b, m.group(1)), conf)


def conf_text(moddir, services=(), timeout=0, rules=(), modules=('iauth', 'iauth_xquery', 'iauth_class', 'vh_driver'), logs=None, extra=''):
    """services: sequence of (name, type); rules: sequence of (name, {key: value})."""
    o = ['core {', '  library_path ( "%s" )' % moddir, '  modules ( %s )' % ', '.join(modules), '}']
    o += ['iauth {', '  timeout %d' % timeout, '}']
    o += ['iauth_xquery {']
    for n, t in services:
        o.append('  "%s" "%s"' % (n, t))
    o += ['}', 'iauth_class {']
    for n, kv in rules:
        o.append('  "%s" {' % n)
        for k, v in kv.items():
            o.append('    %s "%s"' % (k, v))
        o.append('  }')
    o += ['}']
    if logs is not None:
        o += ['logs {'] + ['  ' + l for l in logs] + ['}']
    if extra:
        o.append(extra)
    return '\n'.join(o) + '\n'


class Result:
    __slots__ = ('status', 'out', 'dump', 'rc', 'applied', 'stats', 'config', 'err', 'exitinfo', 'raw_out')

    def lines(self):
        return self.out

    def __repr__(self):
        return 'Result(%s, out=%r)' % (self.status, self.out)


def parse_dump(blob):
    d = []
    for l in blob.decode('latin-1').splitlines():
        if l.startswith('{'):
            d.append(json.loads(l))
    return d


class Server:
    _seq = itertools.count()

    def __init__(self, conf, builddir=None, lsan=False, debug=False, wrapped=True, env=None, files=None):
        self.b = builddir or _build.build()
        self.dir = tempfile.mkdtemp(prefix='e1-', dir=os.path.join(self.b))
        self.conf_path = os.path.join(self.dir, 'iauthd.conf')
        conf = rebase_conf(conf, self.b)
        with open(self.conf_path, 'w') as f:
            f.write(conf)
        for name, text in (files or {}).items():
            with open(os.path.join(self.dir, name), 'w') as f:
                f.write(text)
        c_r, c_w = os.pipe()     # we write -> daemon reads
        o_r, o_w = os.pipe()     # daemon writes -> we read
        s_r, s_w = os.pipe()     # daemon's original stdin (never written)
        self.out_fd = os.memfd_create('e1-stdout')
        e = dict(os.environ)
        e.update({'VH_CTL_IN': str(c_r), 'VH_CTL_OUT': str(o_w),
                  'ASAN_OPTIONS': 'exitcode=86:abort_on_error=0:detect_leaks=%d:allocator_may_return_null=1:handle_abort=0' % (1 if lsan else 0),
                  'UBSAN_OPTIONS': 'print_stacktrace=0:halt_on_error=0',
                  'LSAN_OPTIONS': 'exitcode=87'})
        if env:
            e.update(env)
        args = [os.path.join(self.b, 'iauthd-c'), '-n', '-f', self.conf_path] + (['-d'] if debug else [])
        self.stderr_path = os.path.join(self.dir, 'stderr')
        self.proc = subprocess.Popen(args, stdin=s_r, stdout=self.out_fd, stderr=open(self.stderr_path, 'w'),
                                     pass_fds=(c_r, o_w), env=e, cwd=self.dir)
        os.close(c_r); os.close(o_w); os.close(s_r)
        self._stdin_keep = s_w
        self.w = os.fdopen(c_w, 'wb', buffering=0)
        self.r = os.fdopen(o_r, 'rb')
        hdr = self.r.readline()
        if not hdr.startswith(b'BANNER '):
            err = open(self.stderr_path).read()
            out = os.pread(self.out_fd, 65536, 0)
            self.close()
            raise HarnessError('daemon did not reach the fork server: hdr=%r stdout=%r stderr=%r' % (hdr, out[-2000:], err[-2000:]))
        n = int(hdr.split()[1])
        self.banner = self.r.read(n).decode('latin-1').splitlines()

    def path(self, name):
        return os.path.join(self.dir, name)

    def write_file(self, name, text):
        p = self.path(name)
        with open(p, 'w') as f:
            f.write(text)
        return p

    @staticmethod
    def _enc(ev):
        k = ev[0]
        if k == 'L':
            data = ev[1] if isinstance(ev[1], bytes) else ev[1].encode('latin-1')
        elif k == 'T':
            data = str(ev[1]).encode()
        elif k == 'R':
            data = ev[1].encode()
        elif k in ('E', 'O'):
            data = b''
        else:
            raise ValueError(ev)
        return b'%s %d\n' % (k.encode(), len(data)) + data

    def expand(self, hist, cands, flags=F_DUMP):
        """Replays `hist`, then applies each candidate in its own forked copy.
        Returns (hist_dump or None, bad_index, [Result])."""
        msg = [b'EXPAND %d %d %d\n' % (len(hist), len(cands), flags)]
        msg += [self._enc(e) for e in hist] + [self._enc(e) for e in cands]
        self.w.write(b''.join(msg))
        results = []
        hdump, bad = None, -1
        while True:
            hdr = self.r.readline()
            if not hdr:
                raise HarnessError('fork server died: ' + open(self.stderr_path).read()[-2000:])
            p = hdr.split()
            if p[0] == b'H':
                bad = int(p[1])
                hdump = parse_dump(self.r.read(int(p[2])))
            elif p[0] == b'R':
                r = Result()
                r.status = p[2].decode()
                out = self.r.read(int(p[3])); res = self.r.read(int(p[4])); err = self.r.read(int(p[5])); ex = self.r.read(int(p[6]))
                r.err = err.decode('latin-1'); r.exitinfo = ex.decode('latin-1')
                r.dump = None; r.rc = 0; r.applied = None; r.stats = []; r.config = []
                s1 = s2 = s3 = len(out)
                if res:
                    head, _, tail = res.rpartition(b'RES ')
                    f = tail.split()
                    if len(f) >= 5:
                        r.applied = f[0].decode(); r.rc = int(f[1]); s1, s2, s3 = int(f[2]), int(f[3]), int(f[4])
                    if head.startswith(b'DUMP\n'):
                        r.dump = parse_dump(head[5:])
                r.raw_out = out[:s1]
                r.out = out[:s1].decode('latin-1').split('\n')
                if r.out and r.out[-1] == '':
                    r.out.pop()
                r.stats = out[s1:s2].decode('latin-1').splitlines()
                r.config = out[s2:s3].decode('latin-1').splitlines()
                if r.status == 'ok' and r.applied == 'disabled':
                    r.status = 'disabled'
                elif r.status == 'ok' and r.applied is None:
                    r.status = 'lost'
                if 'ERROR: AddressSanitizer' in r.err or 'ERROR: LeakSanitizer' in r.err:
                    if r.status in ('ok', 'exit86', 'exit87', 'exit1', 'exit0'):
                        r.status = 'asan' if 'AddressSanitizer' in r.err else 'lsan'
                results.append(r)
            elif p[0] == b'END':
                if p[1] != b'ok' and len(results) < len(cands) and bad < 0:
                    raise HarnessError('history replay child died with %s' % p[1].decode())
                break
            else:
                raise HarnessError('protocol error: %r' % hdr)
        return hdump, bad, results

    def trace(self, events, flags=0):
        """Applies the events one after another in ONE forked copy of the daemon.
        Returns (results for the steps that completed, final status, stderr text, exit-probe text)."""
        msg = [b'TRACE %d %d\n' % (len(events), flags)] + [self._enc(e) for e in events]
        self.w.write(b''.join(msg))
        results, status, err, ex = [], None, '', ''
        while True:
            hdr = self.r.readline()
            if not hdr:
                raise HarnessError('fork server died: ' + open(self.stderr_path).read()[-2000:])
            p = hdr.split()
            if p[0] == b'R':
                r = Result()
                out = self.r.read(int(p[3])); res = self.r.read(int(p[4]))
                r.status = 'ok'; r.err = ''; r.exitinfo = ''; r.dump = None; r.rc = 0; r.applied = 'ok'; r.stats = []; r.config = []
                if res:
                    head, _, tail = res.rpartition(b'RES ')
                    f = tail.split()
                    if len(f) >= 2:
                        r.applied = f[0].decode(); r.rc = int(f[1])
                    if head.startswith(b'DUMP\n'):
                        r.dump = parse_dump(head[5:])
                if r.applied == 'disabled':
                    r.status = 'disabled'
                r.raw_out = out
                r.out = out.decode('latin-1').split('\n')
                if r.out and r.out[-1] == '':
                    r.out.pop()
                results.append(r)
            elif p[0] == b'T':
                err = self.r.read(int(p[1])).decode('latin-1'); ex = self.r.read(int(p[2])).decode('latin-1')
            elif p[0] == b'END':
                status = p[1].decode()
                break
            else:
                raise HarnessError('protocol error: %r' % hdr)
        if 'ERROR: AddressSanitizer' in err:
            status = 'asan'
        elif 'ERROR: LeakSanitizer' in err:
            status = 'lsan'
        return results, status, err, ex

    def close(self):
        try:
            self.w.write(b'QUIT\n')
        except Exception:
            pass
        try:
            self.proc.wait(timeout=5)
        except Exception:
            self.proc.kill()
        for f in (getattr(self, 'w', None), getattr(self, 'r', None)):
            try:
                f and f.close()
            except Exception:
                pass
        for fd in (self.out_fd, self._stdin_keep):
            try:
                os.close(fd)
            except Exception:
                pass
        shutil.rmtree(self.dir, ignore_errors=True)

    def __enter__(self):
        return self

    def __exit__(self, *a):
        self.close()
