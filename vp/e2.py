"""Helpers for running core_vh (engine E2) sub-commands, possibly as several partitions in parallel."""
import json, os, subprocess
from concurrent.futures import ThreadPoolExecutor

ENV = {'ASAN_OPTIONS': 'exitcode=86:abort_on_error=0:detect_leaks=1:allocator_may_return_null=1', 'UBSAN_OPTIONS': 'print_stacktrace=0:halt_on_error=0'}


def run(b, args, stdin=None, timeout=None):
    e = dict(os.environ); e.update(ENV)
    p = subprocess.run([os.path.join(b, 'core_vh')] + [str(a) for a in args], input=stdin, stdout=subprocess.PIPE, stderr=subprocess.PIPE, env=e, timeout=timeout)
    return p.returncode, p.stdout.decode('latin-1'), p.stderr.decode('latin-1')


def parse_json_lines(out):
    viols, summaries = [], []
    for line in out.splitlines():
        if not line.startswith('{'):
            continue
        try:
            o = json.loads(line)
        except ValueError:
            continue
        if 'violation' in o:
            viols.append(o['violation'])
        if 'summary' in o:
            summaries.append(o['summary'])
    return viols, summaries


def run_parts(b, args_fn, nparts, timeout=None):
    """args_fn(k, n) -> argv; runs n partitions in parallel; returns [(rc, viols, summaries, stderr)]."""
    def one(k):
        rc, out, err = run(b, args_fn(k, nparts), timeout=timeout)
        v, s = parse_json_lines(out)
        return rc, v, s, err
    with ThreadPoolExecutor(nparts) as ex:
        return list(ex.map(one, range(nparts)))


def merge_counts(summaries, key='classes'):
    tot = {}
    for s in summaries:
        for k, v in s.items():
            if isinstance(v, (int, float)):
                tot[k] = tot.get(k, 0) + v
            elif isinstance(v, dict):
                d = tot.setdefault(k, {})
                for kk, vv in v.items():
                    d[kk] = d.get(kk, 0) + vv
    return tot
