"""A pool of worker processes, each owning one E1 fork server, for enumerations that are not searches."""
import multiprocessing as mp, traceback
from . import e1

_W = {}


def _init(conf, builddir, kw):
    _W['server'] = e1.Server(conf, builddir=builddir, **kw)


def _call(args):
    fn, item = args
    try:
        return fn(_W['server'], item)
    except Exception:
        return {'harness_error': traceback.format_exc()}


class TracePool:
    def __init__(self, conf, builddir, n=16, **kw):
        self.pool = mp.get_context('fork').Pool(n, initializer=_init, initargs=(conf, builddir, kw))

    def imap(self, fn, items, chunksize=4):
        return self.pool.imap_unordered(_call, ((fn, it) for it in items), chunksize=chunksize)

    def close(self):
        self.pool.terminate()
        self.pool.join()

    def __enter__(self):
        return self

    def __exit__(self, *a):
        self.close()


def run_symbolic(server, world, ids, syms, flags=0):
    """Applies symbolic events one after another in a fresh fork of the daemon and steps the observer.
    Returns (violations [(tag, text, index)], outputs per step, final status, stderr)."""
    from . import proto
    ctx = {'cur': {}, 'old': {}, 'serial': 0}
    concrete = []
    # serials are deterministic in a fresh fork: every well-formed announcement takes the next one
    sim = dict(ctx['cur']); serial = 0
    tmpctx = {'cur': {}, 'old': {}, 'serial': 0}
    for ev in syms:
        c = proto.render(ev, tmpctx)
        if c is None:
            raise ValueError('event %r is disabled in a linear trace' % (ev,))
        concrete.append(c)
        if ev[0] in ('C', 'C2', 'C3'):
            serial += 1
            if ev[1] in tmpctx['cur']:
                tmpctx['old'][ev[1]] = tmpctx['cur'][ev[1]]
            tmpctx['cur'][ev[1]] = serial
        elif ev[0] in ('D', 'T') and ev[1] in tmpctx['cur']:
            tmpctx['old'][ev[1]] = tmpctx['cur'].pop(ev[1])
    res, status, err, ex = server.trace(concrete, flags)
    M = proto.initial_M(ids)
    V, outs = [], []
    ctx = {'cur': {}, 'old': {}, 'serial': 0}
    for n, (ev, r) in enumerate(zip(syms, res)):
        outs.append(r.out)
        Mn, v, w = proto.step(world, M, ev, ctx, ctx['serial'] + 1, r.out)
        V += [(t, x, n) for t, x in v]
        # advance ctx the way the daemon does: verdicts and withdrawals retire an instance
        if ev[0] in ('C', 'C2', 'C3'):
            ctx['serial'] += 1
            if ev[1] in ctx['cur']:
                ctx['old'][ev[1]] = ctx['cur'][ev[1]]
            ctx['cur'][ev[1]] = ctx['serial']
        for j, inst in Mn:
            if inst is None and j in ctx['cur'] and not (ev[0] in ('C', 'C2', 'C3') and ev[1] == j):
                ctx['old'][j] = ctx['cur'].pop(j)
        M = Mn
    return V, outs, status, err, len(res)
