"""Explicit-state breadth-first search over the real daemon (engine E1) in product with the observer.

State   = (canonical projection of the daemon's state dump, observer state, which ids have a previous
          instance), reached by a representative history of concrete events that is *replayed on the real
          daemon* whenever the state is expanded (and the dump compared with the one recorded at discovery).
Events  = the symbolic alphabet given by the caller, made concrete per state (routing tags).
"""
import shutil, hashlib, json, multiprocessing as mp, os, pickle, sys, time, traceback
from . import e1, proto, build as _build
from .common import HarnessError

_S = {}   # per-worker globals


def canon_dump(dump, keep_refs=False, keep_counters=False):
    core = reqs = None
    reqs, xqs, svcs, rules, extra = [], {}, [], [], []
    for d in dump:
        t = d['t']
        if t == 'core':
            core = (d['inbuf'], d['timeout'], d['need'], d['policies'], d['table'], d['orphan_timers'], d['clean_exit'])
            if keep_counters:
                core += (d['serial'], d['allocs'], d['frees'], d['datafrees'], d['timers'])
        elif t == 'req':
            reqs.append(d)
        elif t == 'xq':
            xqs[d['id']] = (d.get('missing', 0), d.get('modes'), d.get('sent'), d.get('ref'), d.get('more'), d.get('ok'), d.get('pw'), d.get('refilled', 0))
        elif t == 'svc':
            if d.get('empty'):
                svcs.append((d['slot'], None))
            else:
                s = (d['slot'], d['name'], d['type'], d['conf'])
                if keep_refs:
                    s += (d['refs'],)
                if keep_counters:
                    s += (d['queries'], d['good_acct'], d['good_no_acct'], d['bad'], d['bad_acct'], d['unlinked'])
                svcs.append(s)
        elif t == 'rule':
            r = (d['name'], d['class'], d['account'], d['username'], d['hostname'], d['xreply_ok'], d['bits'], d['addr'], d['trust'])
            if keep_counters:
                r += (d['assigned'],)
            rules.append(r)
        elif keep_counters:
            extra.append(tuple(sorted(d.items())))
    rq = []
    for d in sorted(reqs, key=lambda d: d['id']):
        r = (d['id'], d['flags'], d['holds'], d['soft'], d['state'], d['host'], d['cliuser'], d['authuser'], d['nick'],
             d['real'], d['acct'], d['class'], d['addr'], d['port'], d['lport'], d['raddr'], d['laddr'], d['timer'], d['ndata'], xqs.get(d['id']))
        if keep_counters:
            r += (d['serial'],)
        rq.append(r)
    return (core, tuple(rq), tuple(svcs), tuple(rules), tuple(extra))


def ctx_from(dump, old):
    cur = {}
    serial = 0
    for d in dump:
        if d['t'] == 'req':
            cur[d['id']] = d['serial']
        elif d['t'] == 'core':
            serial = d['serial']
    return {'cur': cur, 'old': dict(old), 'serial': serial}


def _stable(o):
    # frozensets print in insertion-dependent order: serialise them sorted so equal states hash equally
    if isinstance(o, (frozenset, set)):
        return ('\x00set',) + tuple(sorted(_stable(x) for x in o))
    if isinstance(o, tuple):
        return tuple(_stable(x) for x in o)
    if isinstance(o, list):
        return tuple(_stable(x) for x in o)
    if isinstance(o, dict):
        return ('\x00dict',) + tuple(sorted((_stable(k), _stable(v)) for k, v in o.items()))
    return o


def keyhash(obj):
    return hashlib.blake2b(repr(_stable(obj)).encode(), digest_size=16).digest()


# ---- worker side -----------------------------------------------------------------------------------
def _winit(cfg):
    try:
        _S['cfg'] = cfg
        _S['server'] = e1.Server(cfg['conf'], builddir=cfg['build'], lsan=False)
        _S['server_lsan'] = None
        _S['world'] = proto.World(cfg['services'], cfg['rules'], _S['server'].banner, cfg['timeout'], cfg.get('pbudget', 3))
        _S['worlds'] = make_worlds(cfg, _S['server'].banner)
        if _S['worlds']:
            _S['world'] = _S['worlds'][None]
    except Exception:
        traceback.print_exc()
        raise


def make_worlds(cfg, banner):
    """{reload path or None (initial table): World} when the search reloads between service tables, else {}."""
    tabs = cfg.get('reload_tables') or {}
    if not tabs:
        return {}
    types = dict(cfg['services'])
    for t in tabs.values():
        types.update(dict(t))
    ws = {None: proto.World(cfg['services'], cfg['rules'], banner, cfg['timeout'], cfg.get('pbudget', 3), dynamic=True, all_types=types)}
    for path, t in tabs.items():
        ws[path] = proto.World(t, cfg['rules'], banner, cfg['timeout'], cfg.get('pbudget', 3), dynamic=True, all_types=types)
    return ws


def _stats_in_use(lines):
    for l in lines:
        if l.startswith('S iauth :') and 'in use' in l:
            try:
                return int(l.split('reqs alloc, ')[1].split(' in use')[0])
            except Exception:
                return None
    return None


def _expand_task(task):
    """task: dict(sid, hist, M, old, keyh, events, flags, eof_all)"""
    cfg, srv, w = _S['cfg'], _S['server'], _S['world']
    if _S.get('worlds'):
        w = _S['worlds'][task.get('wname')]
    try:
        return _expand(task, cfg, srv, w)
    except HarnessError as e:
        return {'sid': task['sid'], 'error': str(e)}
    except Exception:
        return {'sid': task['sid'], 'error': traceback.format_exc()}


def _expand(task, cfg, srv, w):
    sid, hist, M, old = task['sid'], task['hist'], task['M'], task['old']
    ctx = {'cur': dict(task['cur']), 'old': dict(old), 'serial': task['serial']}
    syms, concrete = [], []
    for ev in task['events']:
        c = proto.render(ev, ctx)
        if c is None:
            continue
        syms.append(ev); concrete.append(c)
    flags = task['flags']
    hdump, bad, results = srv.expand(hist, concrete, flags)
    if bad >= 0:
        return {'sid': sid, 'error': 'replay of the representative history failed at step %d' % bad}
    keep_refs = cfg.get('keep_refs', False)
    hcanon = canon_dump(hdump, keep_refs)
    if keyhash(hcanon) != task['dumph']:
        return {'sid': sid, 'error': 'replay determinism: state %d re-reached by its history has a different dump' % sid}
    hfull = canon_dump(hdump, True, True)
    out = []
    for ev, cev, r in zip(syms, concrete, results):
        rec = {'ev': ev, 'cev': cev, 'status': r.status}
        if r.status == 'disabled':
            rec['disabled'] = True
            out.append(rec)
            continue
        V, W = [], set()
        if ev[0] == 'E':
            # end-of-input probe: real exit path
            ok = (r.status == 'ok')
            rec['eof'] = {'status': r.status, 'exit': r.exitinfo.strip(), 'err': r.err[-1500:]}
            out.append(rec)
            continue
        if r.status != 'ok' or r.dump is None:
            rec['crash'] = {'status': r.status, 'err': r.err[-3000:], 'out': r.out}
            out.append(rec)
            continue
        new_serial = ctx['serial'] + 1
        Mn, V, W = proto.step(w, M, ev, ctx, new_serial, r.out)
        V = list(V)
        wname = task.get('wname')
        if ev[0] == 'RL' and _S.get('worlds') and ev[1] in _S['worlds']:
            Mn = proto.reload_step(Mn, w, _S['worlds'][ev[1]])
            wname = ev[1]
        # ---- C04 state form: a stray reply changes nothing at all
        if ev[0] == 'X':
            inst = proto.M_get(M, ev[1])
            awaited = (ev[3] == 'cur' and inst is not None and ev[2] in inst.owed)
            if not awaited:
                full = canon_dump(r.dump, True, True)
                if full != hfull:
                    diff = _first_diff(hfull, full)
                    V.append(('C04.stray-state', 'stray reply %s changed the daemon state: %s' % (proto.ev_str(ev), diff)))
        # ---- C10: bookkeeping
        live = sum(1 for _, inst in Mn if inst is not None)
        core = next(d for d in r.dump if d['t'] == 'core')
        if flags & e1.F_STATS:
            n = _stats_in_use(r.stats)
            if n != live:
                V.append(('C10.in-use', 'after %s the daemon reports %s requests in use, the server has %d clients announced and not finished' % (proto.ev_str(ev), n, live)))
            for l in r.stats:
                p = proto.parse_line(proto_mask(l))
                if p.kind == 'bad':
                    V.append(('C09.malformed-line', 'stats line %r is not a valid IAuth message' % l))
        if core['table'] != 'ok':
            V.append(('C10.table', 'request table audit: %s' % core['table']))
        if core['orphan_timers']:
            V.append(('C10.orphan-timer', '%d pending timer(s) belong to no live request after %s' % (core['orphan_timers'], proto.ev_str(ev))))
        if not cfg.get('judge_timers', True):
            pass        # the timeout setting itself is reloaded in this search: how many timers are pending is then not determined by the statement
        elif w.timeout > 0:
            want = sum(1 for _, inst in Mn if inst is not None and not inst.expired)
            if core['timers'] != want:
                V.append(('C10.timer-count', '%d request timers pending, expected %d (live instances whose timer has not fired)' % (core['timers'], want)))
        elif core['timers']:
            V.append(('C10.timer-count', '%d request timers pending although no timeout is configured' % core['timers']))
        if core['nreq'] != live:
            V.append(('C10.in-use', 'request table holds %d entries, %d clients are live' % (core['nreq'], live)))
        if flags & e1.F_EOF:
            ex = r.exitinfo.strip()
            rec['eofprobe'] = (r.status, ex)
        # successor
        nold = dict(old)
        _delta_pending = True
        ncur = {d['id']: d['serial'] for d in r.dump if d['t'] == 'req'}
        for j, s in ctx['cur'].items():
            if ncur.get(j) != s:
                nold[j] = s
        canon = canon_dump(r.dump, keep_refs)
        key = (canon, Mn, tuple(sorted(nold))) + ((wname,) if _S.get('worlds') else ())
        # ---- C07: per-client behaviour recorded from solo runs / compared in multi-client runs
        if (cfg.get('record_delta') or cfg.get('delta')) and len(ev) > 1 and isinstance(ev[1], int):
            i = ev[1]
            pre_p = keyhash(proj(hcanon, M, old, i)); post_p = keyhash(proj(canon, Mn, nold, i))
            norm = tuple(_norm_line(l) for l in r.out)
            if cfg.get('record_delta'):
                rec['delta'] = (pre_p, ev, post_p, norm)
            if cfg.get('delta') and i in cfg['delta']:
                d = cfg['delta'][i].get((pre_p, ev))
                if d is None:
                    if cfg.get('delta_complete', {}).get(i):
                        V.append(('C07.solo-unknown', 'client %d is in a state that no run of this client alone reaches (before %s)' % (i, proto.ev_str(ev))))
                elif d != (post_p, norm):
                    V.append(('C07.differs-from-solo', 'event %s: with other clients present the daemon answered %r%s; the same client alone in the same state gets %r'
                              % (proto.ev_str(ev), list(norm), '' if d[0] == post_p else ' and reached a different per-client state', list(d[1]))))
                for j, _inst in M:
                    if j != i and proj(hcanon, M, old, j) != proj(canon, Mn, nold, j):
                        V.append(('C07.other-client-changed', 'event %s of client %d changed the state of client %d' % (proto.ev_str(ev), i, j)))
        kh = keyhash(key)
        seen = _S.setdefault('seen', set())
        if kh in seen:
            rec.update({'key': kh, 'V': V, 'W': W, 'out': r.out if V else None, 'kinds': tuple(l.split(' ')[0] for l in r.out), 'wname': wname})
        else:
            if len(seen) < 2000000:
                seen.add(kh)
            rec.update({'key': kh, 'dumph': keyhash(canon), 'M': Mn, 'old': nold, 'cur': ncur, 'serial': core['serial'],
                        'V': V, 'W': W, 'out': r.out, 'kinds': tuple(l.split(' ')[0] for l in r.out),
                        'timers': {d['id']: d['timer'] for d in r.dump if d['t'] == 'req'}, 'orphans': core['orphan_timers'], 'wname': wname})
        out.append(rec)
    return {'sid': sid, 'results': out}


import re as _re
_TAGRE = _re.compile(r'^X (\S+) ([0-9a-f]+)_[0-9a-f]+ ')


def _norm_line(l):
    return _TAGRE.sub(r'X \1 \2_S ', l)


def proj(canon, M, old, i):
    """Client i's part of a canonical state: its request record, its observer record, whether a previous instance exists."""
    r = None
    for q in canon[1]:
        if q[0] == i:
            r = q
    return (r, proto.M_get(M, i), i in old)


def proto_mask(l):
    return l


def _first_diff(a, b, path=''):
    if type(a) != type(b):
        return '%s: %r -> %r' % (path, a, b)
    if isinstance(a, tuple):
        if len(a) != len(b):
            return '%s: length %d -> %d' % (path, len(a), len(b))
        for n, (x, y) in enumerate(zip(a, b)):
            if x != y:
                return _first_diff(x, y, '%s[%d]' % (path, n))
        return 'equal'
    return '%s: %r -> %r' % (path, a, b)


# ---- coordinator -----------------------------------------------------------------------------------
class State:
    __slots__ = ('parent', 'ev', 'cev', 'out', 'depth', 'M', 'old', 'cur', 'serial', 'dumph', 'timers', 'key', 'orphans', 'wname')


class Search:
    def __init__(self, run, services, rules, timeout, ids, alphabet, flags=e1.F_DUMP | e1.F_STATS,
                 nworkers=16, maxdepth=None, maxstates=None, keep_refs=False, pbudget=3, label='', conf_extra='',
                 record_delta=False, delta=None, delta_complete=None, reload_files=None, reload_tables=None, judge_timers=True):
        self.run = run
        self.b = _build.build()
        self.services, self.rules, self.timeout, self.ids = list(services), list(rules), timeout, list(ids)
        self.alphabet = alphabet          # fn(state, world) -> list of symbolic events
        self.flags = flags
        self.nworkers = nworkers
        self.maxdepth, self.maxstates = maxdepth, maxstates
        self.label = label
        self.conf = e1.conf_text(os.path.join(self.b, 'mods-wrapped'), services=self.services, timeout=timeout, rules=self.rules, extra=conf_extra)
        self.cfg = {'conf': self.conf, 'build': self.b, 'services': self.services, 'rules': self.rules, 'timeout': timeout,
                    'keep_refs': keep_refs, 'pbudget': pbudget, 'record_delta': record_delta, 'delta': delta, 'delta_complete': delta_complete}
        # reload targets: written once into a directory every worker can read; alphabets name them ('RL', <name>)
        self.reload_paths = {}
        self.reload_texts = {}
        self.reload_dir = None
        if reload_files:
            self.reload_dir = os.path.join(self.b, 'rl-%d-%d' % (os.getpid(), abs(hash(label)) % 100000000))
            os.makedirs(self.reload_dir, exist_ok=True)
            for name, fn in reload_files.items():
                path = os.path.join(self.reload_dir, name)
                text = fn(os.path.join(self.b, 'mods-wrapped')) if callable(fn) else fn
                with open(path, 'w') as f:
                    f.write(text)
                self.reload_paths[name] = path
                self.reload_texts[path] = text
        # service table each reload target puts in force (the observer follows the table; without it the observer keeps the initial one)
        self.reload_tables = {self.reload_paths[n]: [tuple(x) for x in t] for n, t in (reload_tables or {}).items()}
        self.cfg['reload_tables'] = self.reload_tables
        self.cfg['judge_timers'] = judge_timers
        self.delta = {}
        self.states = []
        self.index = {}
        self.transitions = 0
        self.disabled = 0
        self.violations = []      # (tag, text, sid, ev, cev)
        self.witnesses = set()
        self.crashes = []
        self.eofs = []
        self.depth_hist = {}
        self.complete = False
        self.levels_done = 0
        self.out_kinds = {}
        self.eof_baseline = None
        self.tag_counts = {}
        self.merges = {}          # (event kind, reply kind or '', depth of the merged path) -> [(target sid, from sid, ev, cev)]
        self.merge_cap = 4

    def history(self, sid):
        h, s = [], sid
        while s is not None and self.states[s].parent is not None:
            st = self.states[s]
            h.append(st.cev)
            s = st.parent
        h.reverse()
        return h

    def sym_history(self, sid):
        h, s = [], sid
        while s is not None and self.states[s].parent is not None:
            st = self.states[s]
            h.append(st.ev)
            s = st.parent
        h.reverse()
        return h

    def trace(self, sid):
        """[(sym, concrete, out_lines)] along the BFS tree path."""
        h, s = [], sid
        while s is not None and self.states[s].parent is not None:
            st = self.states[s]
            h.append((st.ev, st.cev, st.out))
            s = st.parent
        h.reverse()
        return h

    def _add(self, parent, rec):
        st = State()
        st.parent = parent
        st.ev, st.cev, st.out = rec.get('ev'), rec.get('cev'), rec.get('out')
        st.depth = 0 if parent is None else self.states[parent].depth + 1
        st.M, st.old, st.cur, st.serial, st.dumph, st.timers, st.key = rec['M'], rec['old'], rec['cur'], rec['serial'], rec['dumph'], rec['timers'], rec['key']
        st.orphans = rec.get('orphans', 0)
        st.wname = rec.get('wname')
        self.states.append(st)
        self.index[rec['key']] = len(self.states) - 1
        self.depth_hist[st.depth] = self.depth_hist.get(st.depth, 0) + 1
        return len(self.states) - 1

    def go(self):
        run = self.run
        ctxm = mp.get_context('fork')
        pool = ctxm.Pool(self.nworkers, initializer=_winit, initargs=(self.cfg,))
        try:
            # initial state: empty history
            srv0 = e1.Server(self.conf, builddir=self.b)
            self.banner = srv0.banner
            self.world = proto.World(self.services, self.rules, srv0.banner, self.timeout, self.cfg['pbudget'])
            hd, bad, res = srv0.expand([], [('E',)], e1.F_DUMP)
            srv0.close()
            if res and res[0].exitinfo:
                self.eof_baseline = res[0].exitinfo.strip()
            canon = canon_dump(hd, self.cfg['keep_refs'])
            M0 = proto.initial_M(self.ids)
            rec0 = {'M': M0, 'old': {}, 'cur': {}, 'serial': 0, 'dumph': keyhash(canon), 'timers': {}, 'key': keyhash((canon, M0, ()))}
            self._add(None, rec0)
            frontier = [0]
            depth = 0
            while frontier:
                if self.maxdepth is not None and depth >= self.maxdepth:
                    run.cap('%s: depth bound %d reached with %d frontier states' % (self.label, self.maxdepth, len(frontier)))
                    break
                if run.out_of_time(20):
                    run.cap('%s: deadline reached after completing depth %d (%d frontier states unexpanded)' % (self.label, depth, len(frontier)))
                    break
                tasks = []
                for sid in frontier:
                    st = self.states[sid]
                    evs = self.alphabet(st, self.world)
                    if self.reload_paths:
                        evs = [('RL', self.reload_paths[e[1]]) if e[0] == 'RL' and e[1] in self.reload_paths else e for e in evs]
                    tasks.append({'sid': sid, 'hist': self.history(sid), 'M': st.M, 'old': st.old, 'cur': st.cur, 'serial': st.serial,
                                  'dumph': st.dumph, 'events': evs, 'flags': self.flags, 'wname': st.wname})
                nxt = []
                aborted = False
                timed_out = False
                for res in pool.imap_unordered(_expand_task, tasks, chunksize=1):
                    if run.out_of_time(8):
                        timed_out = True
                        break
                    if 'error' in res:
                        raise HarnessError('%s: %s' % (self.label, res['error']))
                    sid = res['sid']
                    for rec in res['results']:
                        if rec.get('disabled'):
                            self.disabled += 1
                            continue
                        self.transitions += 1
                        if 'crash' in rec:
                            self.crashes.append((sid, rec['ev'], rec['cev'], rec['crash']))
                            continue
                        if 'eof' in rec:
                            self.eofs.append((sid, rec['eof']))
                            continue
                        if 'delta' in rec:
                            pre_p, dev, post_p, norm = rec['delta']
                            prev = self.delta.get((pre_p, dev))
                            if prev is not None and prev != (post_p, norm):
                                # the same client, alone, in the same per-client state gets two different treatments for the same event: something
                                # outside its own record (earlier traffic) decides - that is the interference C07 forbids (never seen on the pinned tree)
                                tag = 'C07.history-dependence'
                                self.tag_counts[tag] = self.tag_counts.get(tag, 0) + 1
                                if self.tag_counts[tag] <= 5:
                                    self.violations.append((tag, 'event %s in one and the same per-client state is answered %r after one history and %r after another' % (proto.ev_str(dev), list(prev[1]), list(norm)),
                                                            sid, rec['ev'], rec['cev'], rec.get('out')))
                                continue
                            self.delta[(pre_p, dev)] = (post_p, norm)
                        for tag, text in rec['V']:
                            self.tag_counts[tag] = self.tag_counts.get(tag, 0) + 1
                            if self.tag_counts[tag] <= 40:
                                self.violations.append((tag, text, sid, rec['ev'], rec['cev'], rec['out']))
                        self.witnesses |= rec['W']
                        if 'eofprobe' in rec:
                            self.eofs.append((sid, {'status': rec['eofprobe'][0], 'exit': rec['eofprobe'][1], 'after': rec['ev'], 'cev': rec['cev']}))
                        kind = rec['ev'][0]
                        ok = self.out_kinds.setdefault(kind, set())
                        if len(ok) < 200:
                            ok.add(rec['kinds'])
                        if rec['key'] in self.index and not rec['V']:
                            # a second history reaching a known state: kept (bounded) for the merge-soundness differential
                            tgt = self.index[rec['key']]
                            d = self.states[sid].depth + 1
                            if d <= 8:
                                # self-loops (an event that is ignored, tgt == sid) are kept too: being ignored must also leave no hidden trace
                                b = self.merges.setdefault((rec['ev'][0], rec['ev'][-1] if rec['ev'][0] in ('X', 'P') else '', min(d, 5), tgt == sid), [])
                                if len(b) < self.merge_cap:
                                    b.append((tgt, sid, rec['ev'], rec['cev']))
                        if rec['key'] not in self.index:
                            if 'M' not in rec:
                                continue  # reported in full earlier by the same worker; already queued
                            if self.maxstates is not None and len(self.states) >= self.maxstates:
                                aborted = True
                                continue
                            nxt.append(self._add(sid, rec))
                if timed_out:
                    run.cap('%s: deadline reached inside depth %d (levels below it are complete)' % (self.label, depth + 1))
                    break
                if aborted:
                    run.cap('%s: state budget %d reached at depth %d' % (self.label, self.maxstates, depth + 1))
                    break
                depth += 1
                self.levels_done = depth
                frontier = nxt
            else:
                self.complete = True
        finally:
            pool.terminate()
            pool.join()
            if self.reload_dir:
                shutil.rmtree(self.reload_dir, ignore_errors=True)
        return self

    # -- merge-soundness differential ---------------------------------------------------------------
    def merge_suffixes(self, i):
        """Continuations that start a fresh instance of client i and take it to its verdict."""
        svcs = [n for n, t in self.services]
        S = []
        S.append([('C', i), ('H', i), ('P', i, 'x')] + [('X', i, sv, 'cur', 'OKA') for sv in svcs] + [('X', i, sv, 'cur', 'OK') for sv in svcs])
        S.append([('C', i), ('P', i, 'nobang'), ('N', i), ('u', i), ('n', i), ('U', i)] + [('X', i, sv, 'cur', 'OK') for sv in svcs] + [('H', i)])
        S.append([('C', i), ('H', i), ('P', i, 'bang')] + [('X', i, sv, 'cur', 'OKE') for sv in svcs[:1]] + [('X', i, sv, 'cur', 'NO') for sv in svcs[:1]] + [('D', i)])
        # a retry after AGAIN must be forwarded again
        S.append([('C', i), ('P', i, 'x')] + [('X', i, sv, 'cur', 'AGAIN') for sv in svcs[:1]] + [('P', i, 'x')] + [('X', i, sv, 'cur', 'OKA') for sv in svcs[:1]] + [('H', i)]
                 + [('X', i, sv, 'cur', 'OK') for sv in svcs[1:]])
        if 'addr2' in proto.CLIENTS.get(i, {}):
            # the id announced from another address and port
            S.append([('C2', i), ('H', i), ('P', i, 'x')] + [('X', i, sv, 'cur', 'MORE') for sv in svcs[:1]] + [('X', i, sv, 'cur', 'OK') for sv in svcs[1:]] + [('TO', i)])
        return S

    def merge_check(self, limit=400):
        """Two histories that the search merged (same canonical daemon + observer state) must treat a newly announced
        client identically: runs each continuation after both histories on the real daemon and compares what is written
        (routing serials masked).  Returns (pairs checked, [(text, replay)])."""
        # round-robin over the buckets (event kind, reply/password kind, depth, self-loop) so that a limit never drops a whole kind
        buckets = [list(self.merges[b]) for b in sorted(self.merges, key=repr)]
        pairs = []
        while buckets and len(pairs) < limit:
            for bl in buckets:
                if bl and len(pairs) < limit:
                    pairs.append(bl.pop(0))
            buckets = [bl for bl in buckets if bl]
        self.merge_observed = []      # observer violations on the continuations: [(tag, text, replay)]
        if not pairs:
            return 0, []
        bad = []
        i = self.ids[0]
        seen_obs = set()
        srv = e1.Server(self.conf, builddir=self.b)
        try:
            for tgt, frm, ev, cev in pairs:
                hist_a = self.history(tgt)
                hist_b = self.history(frm) + [cev]
                ser_a = self.states[tgt].serial
                ser_b = self.states[frm].serial + (1 if ev[0] in ('C', 'C2', 'C3') else 0)
                for suf in self.merge_suffixes(i):
                    outs = []
                    for which, (hist, ser) in enumerate(((hist_a, ser_a), (hist_b, ser_b))):
                        ctx = {'cur': {i: ser + 1}, 'old': {}, 'serial': ser}
                        conc = [c for c in (proto.render(e, ctx) for e in suf)]
                        if any(c is None for c in conc):
                            break
                        res, status, err, ex = srv.trace(list(hist) + conc + [('L', '-1 ? stats\n')], 0)
                        steps = res[len(hist):len(hist) + len(conc)]
                        stats_lines = res[len(hist) + len(conc)].out if len(res) > len(hist) + len(conc) else None
                        outs.append((status, [tuple(_norm_line(l) for l in r.out) for r in steps]))
                        # the observer judges the continuation as well (the merged state's observer record is the starting point):
                        # a defect that needs state outside the dump shows up under the property it breaks
                        M = tuple((j, None) if j == i else (j, inst) for j, inst in self.states[tgt].M)
                        octx = {'cur': {}, 'old': {}, 'serial': ser}
                        for e, r in zip(suf, steps):
                            try:
                                Mn, V, W = proto.step(self.world, M, e, octx, octx['serial'] + 1, r.out)
                            except Exception:
                                break
                            if e[0] in ('C', 'C2', 'C3'):
                                octx['serial'] += 1
                                octx['cur'][e[1]] = octx['serial']
                            for j, inst in Mn:
                                if inst is None and j in octx['cur'] and not (e[0] in ('C', 'C2', 'C3') and e[1] == j):
                                    octx['old'][j] = octx['cur'].pop(j)
                            M = Mn
                            if e is suf[-1] and stats_lines is not None:
                                # bookkeeping at the end of the continuation: the daemon's own count against the observer's
                                inuse = _stats_in_use(stats_lines)
                                live = sum(1 for _, inst in M if inst is not None)
                                if inuse is not None and inuse != live:
                                    V = list(V) + [('C10.in-use', 'the daemon reports %s requests in use, the server has %d clients announced and not finished' % (inuse, live))]
                            for tag, text in V:
                                if (tag, e) in seen_obs or tag.startswith('C06.unknown') or tag.startswith('C07.'):
                                    continue
                                seen_obs.add((tag, e))
                                hh = (self.sym_history(tgt) if which == 0 else self.sym_history(frm) + [ev])
                                self.merge_observed.append((tag, '%s  (after the history [%s], continuation [%s])' % (text, ' | '.join(proto.ev_str(x) for x in hh) or '-', ' | '.join(proto.ev_str(x) for x in suf)),
                                                            {'engine': 'E1-merge', 'conf': self.conf, 'hist_a': [list(map(_jsonable, c)) for c in hist], 'hist_b': [list(map(_jsonable, c)) for c in hist],
                                                             'suffix': [list(x) for x in suf], 'serial_a': ser, 'serial_b': ser, 'id': i, 'clause': tag}))
                    if len(outs) < 2:
                        continue
                    if outs[0] != outs[1] and not any(b[1]['hist_b'] == [list(map(_jsonable, c)) for c in hist_b] for b in bad):
                        k = next((n for n in range(min(len(outs[0][1]), len(outs[1][1]))) if outs[0][1][n] != outs[1][1][n]), None)
                        ha = ' | '.join(proto.ev_str(e) for e in self.sym_history(tgt)) or '-'
                        hb = ' | '.join(proto.ev_str(e) for e in self.sym_history(frm) + [ev])
                        text = ('the histories [%s] and [%s] leave the daemon in the same visible state, yet a client announced afterwards is treated differently: at "%s" the daemon writes %r after the first and %r after the second'
                                % (ha, hb, proto.ev_str(suf[k]) if k is not None else 'end', list(outs[0][1][k]) if k is not None else outs[0][0], list(outs[1][1][k]) if k is not None else outs[1][0]))
                        bad.append((text, {'engine': 'E1-merge', 'conf': self.conf, 'hist_a': [list(map(_jsonable, c)) for c in hist_a], 'hist_b': [list(map(_jsonable, c)) for c in hist_b],
                                           'suffix': [list(e) for e in suf], 'serial_a': ser_a, 'serial_b': ser_b, 'id': i, 'self_loop': tgt == frm, 'last_event': list(ev)}))
        finally:
            srv.close()
        return len(pairs), bad

    # -- reporting helpers ----------------------------------------------------------------------
    def replay_obj(self, sid, ev, cev, extra=None):
        o = {'engine': 'E1', 'conf': self.conf, 'services': self.services, 'rules': self.rules, 'timeout': self.timeout, 'ids': self.ids,
             'events': [list(map(_jsonable, c)) for c in self.history(sid)] + [list(map(_jsonable, cev))],
             'symbolic': [proto.ev_str(e) for e in self.sym_history(sid)] + [proto.ev_str(ev)],
             'symbolic_raw': [list(e) for e in self.sym_history(sid)] + [list(ev)]}
        if self.reload_texts:
            o['reload_files'] = dict(self.reload_texts)
        if self.reload_tables:
            o['reload_tables'] = {p: [list(x) for x in t] for p, t in self.reload_tables.items()}
        if extra:
            o.update(extra)
        return o

    def maximal_traces(self, limit=None):
        """Histories of the BFS spanning tree's leaves, as [(sym, cev, out)] lists."""
        has_child = set(st.parent for st in self.states if st.parent is not None)
        leaves = [n for n in range(len(self.states)) if n not in has_child]
        if limit:
            leaves = leaves[:limit]
        return [self.trace(n) for n in leaves]


def _jsonable(x):
    if isinstance(x, bytes):
        return x.decode('latin-1')
    return x
