"""Builds the harness binaries from $VERIF_REPO's *current working tree* into /verif/build/<hash>/.

Nothing of the repository's autotools machinery is used: sources are compiled directly with
gcc -O1 -g -fsanitize=address,undefined.  The directory name is a hash over every repository and
harness source, so an unchanged tree costs nothing and any edit triggers a full rebuild.
"""
import hashlib, os, subprocess, sys, glob, shutil, fcntl, time
from concurrent.futures import ThreadPoolExecutor

VERIF = os.path.dirname(os.path.dirname(os.path.abspath(__file__)))
REPO = os.environ.get('VERIF_REPO', '/repo')
HARNESS = os.path.join(VERIF, 'harness')
BUILDROOT = os.path.join(VERIF, 'build')

SAN = ['-fsanitize=address,undefined', '-fno-omit-frame-pointer']
CORE_SRCS = ['accumulators', 'bitset', 'common', 'config', 'log', 'module', 'set', 'git-version']

def _files():
    fs = []
    for pat in ('src/*.c', 'src/*.h', 'modules/*.c', 'modules/*.h', 'autoconf.h'):
        fs += glob.glob(os.path.join(REPO, pat))
    fs += glob.glob(os.path.join(HARNESS, '*'))
    return sorted(fs)

def tree_hash():
    h = hashlib.sha256()
    h.update(REPO.encode())
    for f in _files():
        h.update(f.encode()); h.update(b'\0')
        with open(f, 'rb') as fh:
            h.update(fh.read())
        h.update(b'\0')
    return h.hexdigest()[:16]

def _run(cmd, log):
    p = subprocess.run(cmd, stdout=subprocess.PIPE, stderr=subprocess.STDOUT, text=True)
    log.append((' '.join(cmd), p.returncode, p.stdout))
    if p.returncode != 0:
        raise RuntimeError('build step failed: %s\n%s' % (' '.join(cmd), p.stdout))

def build(verbose=False):
    """Returns the build directory (building if needed)."""
    os.makedirs(BUILDROOT, exist_ok=True)
    lock = open(os.path.join(BUILDROOT, '.lock'), 'w')
    fcntl.flock(lock, fcntl.LOCK_EX)
    try:
        h = tree_hash()
        out = os.path.join(BUILDROOT, h)
        if os.path.exists(os.path.join(out, '.done')):
            os.utime(os.path.join(out, '.done'))
            return out
        # drop older builds to bound disk use: beyond the 8 most recent, and only when untouched for an hour (another check may still be running on it)
        olds = sorted((d for d in glob.glob(os.path.join(BUILDROOT, '*')) if os.path.isdir(d)),
                      key=lambda d: os.path.getmtime(os.path.join(d, '.done')) if os.path.exists(os.path.join(d, '.done')) else 0)
        for d in olds[:-8]:
            done = os.path.join(d, '.done')
            if not os.path.exists(done) or time.time() - os.path.getmtime(done) > 3600:
                shutil.rmtree(d, ignore_errors=True)
        shutil.rmtree(out, ignore_errors=True)
        for sub in ('obj', 'inc', 'mods-wrapped', 'mods-plain', 'stubs'):
            os.makedirs(os.path.join(out, sub))
        inc = os.path.join(out, 'inc')
        if os.path.exists(os.path.join(REPO, 'autoconf.h')):
            shutil.copy(os.path.join(REPO, 'autoconf.h'), os.path.join(inc, 'autoconf.h'))
        else:
            shutil.copy(os.path.join(HARNESS, 'autoconf.h.fallback'), os.path.join(inc, 'autoconf.h'))
        cpp = ['-I' + inc, '-I' + REPO, '-I' + HARNESS, '-DHAVE_CONFIG_H',
               '-DSYSCONFDIR="/nonexistent/etc"', '-DMODULESDIR="/nonexistent/lib"', '-DLOGDIR="/tmp"',
               '-DVERIF_REPO="%s"' % REPO]
        cflags = ['-g', '-O1', '-W', '-Wall', '-Wno-unused-function', '-fPIC'] + SAN + cpp
        log = []
        jobs = []
        def cc(src, obj, extra=()):
            jobs.append(['gcc'] + cflags + list(extra) + ['-c', src, '-o', obj])
        O = lambda n: os.path.join(out, 'obj', n + '.o')
        for n in CORE_SRCS + ['main']:
            cc(os.path.join(REPO, 'src', n + '.c'), O(n))
        for n in ('iauth_core', 'iauth_misc', 'iauth_xquery', 'iauth_class'):
            cc(os.path.join(REPO, 'modules', n + '.c'), O(n))
        for f in glob.glob(os.path.join(HARNESS, '*.c')):
            n = os.path.basename(f)[:-2]
            cc(f, O('h_' + n))
        cc(os.path.join(HARNESS, 'stub_module.c'), O('h_stub_module_nopost'), ['-DVH_NO_POST_INIT'])
        cc(os.path.join(HARNESS, 'stub_module.c'), O('h_stub_module_noctor'), ['-DVH_NO_CONSTRUCTOR'])
        with ThreadPoolExecutor(16) as ex:
            list(ex.map(lambda c: _run(c, log), jobs))
        libs = ['-levent', '-lm', '-ldl', '-lrt']
        ld = ['gcc'] + SAN
        links = []
        core_objs = [O(n) for n in CORE_SRCS]
        # the daemon itself (E3, and host of E1)
        links.append(ld + ['-rdynamic', '-o', os.path.join(out, 'iauthd-c')] + core_objs + [O('main'), O('h_vh_exit_probe')] + libs)
        # plain modules
        links.append(ld + ['-shared', '-o', os.path.join(out, 'mods-plain', 'iauth.so'), O('iauth_core'), O('iauth_misc')])
        links.append(ld + ['-shared', '-o', os.path.join(out, 'mods-plain', 'iauth_xquery.so'), O('iauth_xquery')])
        links.append(ld + ['-shared', '-o', os.path.join(out, 'mods-plain', 'iauth_class.so'), O('iauth_class')])
        # wrapped modules (E1)
        links.append(ld + ['-shared', '-o', os.path.join(out, 'mods-wrapped', 'iauth.so'), O('h_wrap_core'), O('iauth_misc')])
        links.append(ld + ['-shared', '-o', os.path.join(out, 'mods-wrapped', 'iauth_xquery.so'), O('h_wrap_xquery')])
        links.append(ld + ['-shared', '-o', os.path.join(out, 'mods-wrapped', 'iauth_class.so'), O('h_wrap_class')])
        links.append(ld + ['-shared', '-o', os.path.join(out, 'mods-wrapped', 'vh_driver.so'), O('h_vh_driver')])
        links.append(ld + ['-shared', '-o', os.path.join(out, 'stubs', 'stub.so'), O('h_stub_module')])
        links.append(ld + ['-shared', '-o', os.path.join(out, 'stubs', 'stub_nopost.so'), O('h_stub_module_nopost')])
        links.append(ld + ['-shared', '-o', os.path.join(out, 'stubs', 'stub_noctor.so'), O('h_stub_module_noctor')])
        # E2: library layer driven directly
        e2 = [O('h_' + os.path.basename(f)[:-2]) for f in glob.glob(os.path.join(HARNESS, 'e2_*.c'))]
        links.append(ld + ['-rdynamic', '-o', os.path.join(out, 'core_vh')] + core_objs + [O('iauth_misc')] + e2 + libs)
        links = [l for l in links if all(os.path.exists(a) for a in l if a.endswith('.o'))]
        with ThreadPoolExecutor(16) as ex:
            list(ex.map(lambda c: _run(c, log), links))
        with open(os.path.join(out, 'build.log'), 'w') as f:
            for c, rc, o in log:
                f.write('$ %s\n%s\n' % (c, o))
        open(os.path.join(out, '.done'), 'w').write(h)
        return out
    finally:
        fcntl.flock(lock, fcntl.LOCK_UN)
        lock.close()

if __name__ == '__main__':
    t = time.time()
    try:
        d = build()
    except RuntimeError as e:
        print(e); sys.exit(2)
    print(d, '%.1fs' % (time.time() - t))
