"""Alphabets for the protocol searches (DESIGN 5.0)."""
from . import proto

GHOST = 'ghost.svc'
GLOB_GHOSTS = ('*', '?????.svc')      # service names that are wildcard patterns covering the configured names: still not those services

DATA_ALL = ('N', 'd', 'u', 'u0', 'n', 'U', 'H')
END_ALL = ('D', 'T')


def make(ids, data=DATA_ALL, ends=END_ALL, passwords=tuple(proto.PASSWORDS), replies=proto.REPLY_KINDS,
         old_replies=('OKA', 'NO', 'MORE', 'UNL', 'OK'), malformed=proto.MALFORMED_TAGS, malformed_replies=('OKA', 'NO'),
         ghost_replies=('OKA', 'NO', 'MORE', 'UNL'), with_timeout=True, pbudget=None, dead_probes=True, reannounce=True, alt_announce=False, glob_ghosts=()):
    def fn(st, w):
        evs = []
        if with_timeout and getattr(st, 'orphans', 0):
            evs.append(('TOO',))      # only ever enabled on a tree that leaves a stale timer behind
        live = {i: inst for i, inst in st.M}
        for i in ids:
            inst = live.get(i)
            if inst is None or reannounce:
                evs.append(('C', i))
                if alt_announce:
                    evs.append(('C2', i))     # the same id from another address/port
                    evs.append(('C3', i))     # ... from the same address, another port
            if inst is None:
                if dead_probes:
                    # lines for an id that is not live must be ignored: one disconnect and one data line as probes,
                    # and replies carrying the departed instance's tag
                    evs += [('D', i), ('N', i)]
                    if st.old.get(i) is not None and w.services:
                        s0 = w.services[0][0]
                        evs += [('X', i, s0, 'old', rk) for rk in old_replies[:2]]
                continue
            evs += [(k, i) for k in data] + [(k, i) for k in ends]
            if inst.pcount < (pbudget if pbudget is not None else w.pbudget):
                evs += [('P', i, k) for k in passwords]
            for s, t in w.services:
                evs += [('X', i, s, 'cur', rk) for rk in replies]
            for s, t in w.services:
                evs += [('X', i, s, 'old', rk) for rk in old_replies]
            s0 = w.services[0][0] if w.services else GHOST
            for tk in malformed:
                evs += [('X', i, s0, tk, rk) for rk in malformed_replies]
            evs += [('X', i, GHOST, 'cur', rk) for rk in ghost_replies]
            evs += [('X', i, g, 'cur', rk) for g in glob_ghosts for rk in ghost_replies[:2]]
            if with_timeout and w.timeout > 0 and st.timers.get(i) == 1:
                evs.append(('TO', i))
        return evs
    return fn


def full(ids, **kw):
    return make(ids, **kw)


def quick_core(ids, **kw):
    """Sigma_q: the sub-alphabet whose solo search closes quickly; everything in it is also in Sigma."""
    d = dict(data=('N', 'u', 'n', 'U', 'H'), passwords=('x', 'bang', 'nobang', 'nopass'), replies=('OKA', 'OKE', 'NO', 'MORE', 'AGAIN', 'UNL'),
             old_replies=('OKA',), malformed=('trunc',), malformed_replies=('OKA',), ghost_replies=('OKA',), pbudget=2)
    d.update(kw)
    return make(ids, **d)


def reduced(ids, **kw):
    """Sigma_2: one password form, reply kinds {OK acct, NO, MORE}, no malformed tags."""
    d = dict(data=('N', 'u', 'n', 'U', 'H'), passwords=('x',), replies=('OKA', 'NO', 'MORE'), old_replies=(), malformed=(),
             ghost_replies=(), pbudget=2, dead_probes=False)
    d.update(kw)
    return make(ids, **d)


def scen_hurry(ids, **kw):
    """S_A: data arrives only as hurry-up; rich passwords / replies / stray replies."""
    d = dict(data=('H',), ends=('D', 'T'), passwords=('x', 'bang', 'nobang', 'xbang', 'rebang', 'nopass', 'bangword'), pbudget=2, glob_ghosts=GLOB_GHOSTS)
    d.update(kw)
    return make(ids, **d)


def scen_orders(ids, **kw):
    """S_B: every arrival order of the data items; one password form, few reply kinds."""
    d = dict(passwords=('x',), pbudget=1, replies=('OKA', 'NO', 'MORE'), old_replies=('OKA',), malformed=('trunc',),
             malformed_replies=('OKA',), ghost_replies=('OKA',))
    d.update(kw)
    return make(ids, **d)


def tiny(ids, **kw):
    """Sigma_3: the smallest alphabet in which two clients still collide on both services and the timer."""
    d = dict(data=('H',), ends=('D',), passwords=('x',), replies=('OKA', 'NO'), old_replies=(), malformed=(),
             ghost_replies=(), pbudget=1, dead_probes=False)
    d.update(kw)
    return make(ids, **d)
