"""Shared plumbing for all checks: tiers, deadlines, violations/replays, known findings, evidence."""
import hashlib, json, os, sys, time, re

VERIF = os.path.dirname(os.path.dirname(os.path.abspath(__file__)))
REPO = os.environ.get('VERIF_REPO', '/repo')
# VERIF_OUT redirects evidence and replays (used when a check is pointed at a scratch tree carrying a seeded change)
_OUT = os.environ.get('VERIF_OUT') or VERIF
EVIDENCE_DIR = os.path.join(_OUT, 'evidence')
REPLAY_DIR = os.path.join(_OUT, 'replays')
FINDINGS_FILE = os.path.join(VERIF, 'known_findings.json')


class HarnessError(Exception):
    """Something is wrong with the machinery (build failure, non-deterministic replay, vacuous run).
    Never reported as a VIOLATION; exit status 2."""


def load_findings(pid):
    try:
        with open(FINDINGS_FILE) as f:
            allf = json.load(f)
    except FileNotFoundError:
        return []
    return [e for e in allf if e.get('property') == pid and e.get('status') == 'known']


CURRENT = None      # the Run of this process (bin/check uses it when a harness error follows recorded violations)


class Run:
    """One invocation of one check."""

    def __init__(self, pid, level, tier=None):
        global CURRENT
        CURRENT = self
        self.pid = pid
        self.level = level
        self.tier = os.environ.get('VERIF_TIER') or tier or 'quick'
        if self.tier not in ('quick', 'thorough'):
            self.tier = 'quick'
        try:
            self.seed = int(os.environ.get('VERIF_SEED', '0'))
        except ValueError:
            self.seed = 0
        self.t0 = time.time()
        dl = os.environ.get('VERIF_DEADLINE_S')
        self.deadline_s = float(dl) if dl else (420.0 if self.tier == 'quick' else 3000.0)
        self.violations = []       # unknown ones
        self.known_hits = {}       # finding id -> (entry, count, first what)
        self.findings = load_findings(pid)
        self.notes = []
        self.capped = None
        self._seen_sig = set()

    # -- time -------------------------------------------------------------------------------------
    def elapsed(self):
        return time.time() - self.t0

    def time_left(self):
        return self.deadline_s - self.elapsed()

    def out_of_time(self, reserve=0.0):
        return self.time_left() <= reserve

    def cap(self, what):
        """Record that a cap (deadline, state budget) was hit: the run is not exhaustive."""
        if not self.capped:
            self.capped = what
        self.note('CAP: ' + what)

    def note(self, s):
        self.notes.append(s)
        print('# ' + s, flush=True)

    # -- violations -------------------------------------------------------------------------------
    def violation(self, cls, what, replay, dedup=None):
        """cls: code-defined class of the failure (used to match known findings);
        what: one line for humans; replay: JSON-able object that `bin/check --replay` can re-execute."""
        sig = dedup if dedup is not None else cls + '|' + what
        if sig in self._seen_sig:
            return
        self._seen_sig.add(sig)
        for e in self.findings:
            if e.get('class') == cls:
                hit = self.known_hits.setdefault(e['id'], [e, 0, what])
                hit[1] += 1
                return
        os.makedirs(REPLAY_DIR, exist_ok=True)
        body = {'property': self.pid, 'class': cls, 'what': what, 'replay': replay}
        blob = json.dumps(body, indent=1, sort_keys=True, default=str)
        name = '%s-%s.json' % (self.pid, hashlib.sha256(blob.encode()).hexdigest()[:8])
        path = os.path.join(REPLAY_DIR, name)
        with open(path, 'w') as f:
            f.write(blob + '\n')
        self.violations.append((cls, what, path))
        if len(self.violations) <= 25:
            print('VIOLATION property=%s replay=%s' % (self.pid, path), flush=True)
            print('#   class=%s: %s' % (cls, what), flush=True)

    def too_many(self, limit=200):
        return len(self.violations) >= limit

    # -- evidence ---------------------------------------------------------------------------------
    def finish(self, coverage, assumptions=(), extra=None):
        cov = dict(coverage)
        if self.capped:
            cov['exhaustive'] = False
            cov['cap_hit'] = self.capped
        cov.setdefault('exhaustive', False)
        cov['known_findings_hit'] = {k: {'count': v[1], 'first': v[2]} for k, v in self.known_hits.items()}
        if self.notes:
            cov['notes'] = self.notes[:200]
        cov['violation_samples'] = [{'class': c, 'what': w, 'replay': p} for c, w, p in self.violations[:10]]
        ev = {
            'property_id': self.pid,
            'tier': self.tier,
            'seed': self.seed,
            'level': self.level,
            'coverage': cov,
            'assumptions': list(assumptions),
            'wall_s': round(self.elapsed(), 2),
            'violations': len(self.violations),
            'repo': REPO,
        }
        if extra:
            ev.update(extra)
        os.makedirs(EVIDENCE_DIR, exist_ok=True)
        path = os.path.join(EVIDENCE_DIR, self.pid + '.json')
        tmp = path + '.tmp%d' % os.getpid()
        with open(tmp, 'w') as f:
            json.dump(ev, f, indent=1, default=str)
            f.write('\n')
        os.replace(tmp, path)
        for fid, (e, n, what) in sorted(self.known_hits.items()):
            print('KNOWN-FINDING: property=%s %s [%s; %d occurrence(s), e.g. %s]' % (self.pid, e.get('what', fid), fid, n, what), flush=True)
        if len(self.violations) > 25:
            print('# ... %d violations in total' % len(self.violations))
        keys = ('states', 'transitions', 'evaluations', 'distinct_nontrivial', 'traces_validated_against_impl', 'exhaustive')
        print('# %s %s: %s wall=%.1fs violations=%d known=%d' % (
            self.pid, self.tier, ' '.join('%s=%s' % (k, cov[k]) for k in keys if k in cov),
            self.elapsed(), len(self.violations), len(self.known_hits)), flush=True)
        return 1 if self.violations else 0


def load_replay(path):
    with open(path) as f:
        return json.load(f)


_TS = re.compile(r'\b\d+ sec old\b')
def mask_time(line):
    return _TS.sub('N sec old', line)
