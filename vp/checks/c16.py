"""C16 - config text means what it says (DESIGN 5/C16).

Engine E2 "conf": every file is loaded by the real conf_read() into an empty live tree in a fresh fork and the
dump is compared with the tree the file was generated from.
  trees       every sequence of <= 3 entries over a menu of 12 entries (all four kinds, nested and repeated
              objects, duplicate keys of the same and of different kinds, quoted names), plus single-entry trees
              for every documented escape, the empty string and a 300-character value
  renderings  deviation-bounded: the default rendering (quoted, parenthesised, newline-terminated), then every
              single deviation at every choice point (bare vs quoted name/value, comma list, gap between name and
              value, blanks inside parentheses/after '{', terminator ';' / newline / ';'+newline / comment /
              nothing before '}' / nothing at end of file), then (thorough) every pair of deviations
  typed       every boolean keyword, integers, floats, every interval of <= 3 unit components and h:m:s forms,
              every volume of <= 3 components in both cases: parsed value = reference; an unparsable value after a
              good one leaves the earlier parsed value in force
"""
import itertools, json
from .. import common, build, conf as C

TOKEN_CHARS = set('abcdefghijklmnopqrstuvwxyzABCDEFGHIJKLMNOPQRSTUVWXYZ0123456789-._#')
ESC = '\a\b\f\n\r\t\v\\"/A'
HEXY = 'J\xab\xc3\xa9\x0a\x1f\x7f:\xff'     # bytes whose two-digit hexadecimal spelling has letters
LONG = 'x' * 300

MENU = [
    ('a', 's', 'v'),
    ('a', 's', 'two words'),
    ('b', 's', 'tab\there "q" \\ end'),
    ('a', 'l', ('x', 'y z')),
    ('b', 'l', ()),
    ('a', 'l', ('x',)),
    ('h', 'i', ('host.example', '8080')),
    ('a', 'o', [('x', 's', '1')]),
    ('a', 'o', [('y', 'l', ('p', 'q')), ('x', 's', '2')]),
    ('b', 'o', []),
    ('a', 'o', [('n', 'o', [('z', 's', 'deep')])]),
    ('*.>=info', 's', 'file:log'),
]


def bare_ok(s):
    return len(s) > 0 and all(c in TOKEN_CHARS for c in s)


_ESCMAP = {'\a': '\\a', '\b': '\\b', '\f': '\\f', '\n': '\\n', '\r': '\\r', '\t': '\\t', '\v': '\\v', '\\': '\\\\', '"': '\\"'}


def quote(s, style=0):
    """style 0: symbolic escapes; style 1: every non-alphanumeric character as \\xHH; style 2: '/', ':' and blank escaped with a backslash;
    style 3: control characters, blank, ':' and '/' written as backslash + the literal byte"""
    o = ['"']
    for ch in s:
        if style == 4 and not ch.isalnum():
            o.append('\\x%02X' % ord(ch))           # upper-case hexadecimal digits
        elif style == 3 and (ch in '\t\n\r\f\v\a\b' or ch in ' :/'):
            o.append('\\' + ch)             # an unsupported escape: backslash + the literal byte stands for that byte
        elif style == 1 and not ch.isalnum():
            o.append('\\x%02x' % ord(ch))
        elif ch in _ESCMAP:
            o.append(_ESCMAP[ch])
        elif style == 2 and ch in '/: ':
            o.append('\\' + ch)
        else:
            o.append(ch)
    o.append('"')
    return ''.join(o)


class R:
    """Renderer with numbered choice points; `dev` maps choice index -> option; records how many options each point has."""

    def __init__(self, dev):
        self.dev = dev
        self.points = []

    def choose(self, options, label):
        i = len(self.points)
        self.points.append((label, len(options)))
        k = self.dev.get(i, 0)
        return options[k] if k < len(options) else options[0]

    def s(self, text, label):
        opts = [quote(text)]
        if bare_ok(text):
            opts.append(text)
        if any(not c.isalnum() for c in text):
            opts.append(quote(text, 1))
        if any((not c.isalnum()) and ('%02x' % ord(c)) != ('%02X' % ord(c)) for c in text):
            opts.append(quote(text, 4))
        if any(c in '/: ' for c in text):
            opts.append(quote(text, 2))
        if any(c in '\t\n\r\f\v\a\b :/' for c in text):
            opts.append(quote(text, 3))
        return self.choose(opts, label)

    def body(self, entries, root):
        out = []
        for idx, (n, k, v) in enumerate(entries):
            last = idx == len(entries) - 1
            out.append(self.s(n, 'name'))
            out.append(self.choose([' ', '\t', ' /*c*/ ', '   ', ' /* multi\nline */ ', ' /**/ ', ' /***/ ', ' /** stars **/ ', ' /* a * b / c */ ', ' /*/ slash */ '], 'gap'))
            if k == 's':
                out.append(self.s(v, 'value'))
            elif k == 'i':
                out.append(self.s(v[0], 'host')); out.append(self.choose([' ', '\t', ' /*c*/ '], 'gap2')); out.append(self.s(v[1], 'service'))
            elif k == 'l':
                items_q = [quote(x) for x in v]
                forms = [items_q]
                if v and all(bare_ok(x) for x in v):
                    forms.append(list(v))
                items = self.choose(forms, 'items')
                shapes = ['( %s )' % ', '.join(items), '(%s)' % ','.join(items), '(\n  %s\n)' % ' ,\n  '.join(items)]
                if len(items) >= 2:
                    shapes.append(', '.join(items))
                    shapes.append(' ,'.join(items))
                out.append(self.choose(shapes, 'list-shape'))
            else:
                out.append('{')
                out.append(self.choose(['\n', ' ', '', ' // c\n'], 'after-brace'))
                out.append(self.body(v, False))
                out.append('}')
            if root:
                opts = ['\n', ';', ';\n', ' ;\n', ' // c\n', '\n\n'] + ([''] if last else [])
            elif last:
                opts = ['\n', ';', ';\n', ' ', '', ' // c\n']
            else:
                opts = ['\n', ';', ';\n', '; ', ' // c\n', '\n\n']
            out.append(self.choose(opts, 'terminator' + ('-last' if last else '') + ('' if root else '-nested')))
        return ''.join(out)


def render(tree, dev):
    r = R(dev)
    return r.body(tree, True), r.points


def sem(entries, prefix='', out=None):
    """What the text says: later duplicates override earlier ones, repeated objects merge, kinds are separate name spaces."""
    if out is None:
        out = {}
    for n, k, v in entries:
        p = prefix + n
        if k == 'o':
            out[(p, 'o')] = None
            sem(v, p + '/', out)
        elif k == 'l':
            out[(p, 'l')] = tuple(v)
        elif k == 'i':
            out[(p, 'i')] = tuple(v)
        else:
            out[(p, 's')] = v
    return out


def flatten(dump, prefix='', out=None):
    if out is None:
        out = {}
    for c in dump.get('c', []):
        if 'n' not in c:
            # structural alarm raised by the dumper itself (child with a foreign parent pointer, child list that does not end)
            out[(prefix + ' '.join(sorted(c)), '!')] = {'sp': 0, 'pr': 0, 'v': 'corrupt child list', 'hk': 0} if False else 'corrupt child list'
            continue
        p = prefix + c['n']
        k = c['t']
        if prefix == '' and c['n'] == 'logs':
            continue
        if k == 's':
            out[(p, k)] = c['v']
        elif k == 'i':
            out[(p, k)] = (c['h'], c['sv'])
        elif k == 'l':
            out[(p, k)] = tuple(c['v'])
        else:
            out[(p, k)] = None
            flatten(c, p + '/', out)
    return out


def trees(quick):
    ts = []
    for n in (1, 2, 3):
        for comb in itertools.product(range(len(MENU)), repeat=n):
            ts.append([MENU[i] for i in comb])
    singles = [[('e', 's', ch)] for ch in ESC] + [[('e', 's', HEXY)], [('e', 'l', (HEXY, 'plain'))], [('e', 's', ESC)], [('e', 's', '')], [('e', 's', LONG)], [('e', 'l', ('', ESC, LONG))],
                                                    [('e', 'i', ('::1', '')), ('f', 'i', ('', 'http'))], [('my name', 's', 'v')], [('123', 's', '456')], [('a-b.c_d#e', 's', '#-._')],
                                                    [('o', 'o', [('p', 'o', [('q', 'o', [('r', 's', 'v')])])])], [('o', 'o', [('x', 's', '1')]), ('o', 'o', [('x', 's', '2')]), ('o', 'o', [('y', 's', '3')])],
                                                    [('k', 's', '1'), ('k', 'l', ('1',)), ('k', 'i', ('1', '2')), ('k', 'o', [])]]
    return singles + ts


BROKEN_PRELUDES = [b'p (iauth, iauth_xquery\n', b'p iauth, iauth_xquery, (\n', b'o {\n q "unterminated\n']


def _task(srv, item):
    """item = list of (case id, file text); -> list of (case id, status, rc, flattened dump or None).
    A negative case id means: the file is loaded after rejected loads of broken files in the same process (a rejected load must leave
    nothing behind that changes how the next file is read)."""
    cands = [C.load(t.encode('latin-1')) for _, t in item]
    hist = [C.load(b) for b in BROKEN_PRELUDES] if item and item[0][0] < 0 else []
    h, res = srv.expand(hist, cands)
    if hist and any(rc == 0 for rc in h['rcs']):
        return {'harness_error': 'a broken prelude file was accepted: %r' % (h['rcs'],)}
    out = []
    for (cid, t), r in zip(item, res):
        if r.get('status') != 'ok':
            out.append((cid, r.get('status'), None, None, (r.get('stderr') or '')[-300:]))
        else:
            out.append((cid, 'ok', r['rc'], flatten(r['dump']) if r['rc'] == 0 else None, ''))
    return out


# ---- typed values ------------------------------------------------------------------------------------------------
def typed_cases(quick):
    """-> list of (subtype, text, expected parsed value or None when unparsable)"""
    cs = []
    for kw in ('0', 'false', 'off', 'disabled', 'no'):
        cs.append((1, kw, 0))
    for kw in ('1', 'true', 'on', 'enabled', 'yes'):
        cs.append((1, kw, 1))
    for bad in ('pizza', '2', 'yess', 'truee', 'of', 'y'):
        cs.append((1, bad, None))
    for t, v in (('0', 0), ('7', 7), ('321', 321), ('0x1f', 31), ('2147483647', 2147483647), ('65536', 65536)):
        cs.append((2, t, v))
    for bad in ('12z', '1x', 'pizza', '1.5', '0x', '7 '):
        cs.append((2, bad, None))
    for t in ('8.0', '0.5', '1e3', '-2.25', '0', '321'):
        cs.append((3, t, repr(float(t))))
    for bad in ('8.0x', 'pizza', '1..2'):
        cs.append((3, bad, None))
    U = {'y': 365 * 86400, 'd': 86400, 'h': 3600, 'm': 60, 's': 1}
    vals = (0, 1, 59, 100)
    comps = [(v, u) for v in vals for u in U]
    for n in (1, 2, 3):
        for seq in itertools.product(comps, repeat=n):
            if quick and n == 3 and (seq[0][0] == 100 or seq[1][0] == 0):
                continue
            tot = sum(v * U[u] for v, u in seq)
            if tot >= 2 ** 32:
                continue
            cs.append((4, ''.join('%d%s' % (v, u) for v, u in seq), tot))
    for h, m, s in itertools.product(vals, repeat=3):
        cs.append((4, '%02d:%02d:%02d' % (h, m, s), h * 3600 + m * 60 + s))
    cs += [(4, '1y2d03:04:05', 365 * 86400 + 2 * 86400 + 3 * 3600 + 4 * 60 + 5), (4, '2h3m4s', 7384), (4, '1h30', 3630), (4, '90', 90)]
    for bad in ('123z', '1:2:3:', '1x', 'pizza', '5 m'):
        cs.append((4, bad, None))
    W = {'G': 1 << 30, 'M': 1 << 20, 'K': 1 << 10, 'B': 1}
    vv = (0, 1, 3, 1000)
    vcomps = [(v, u) for v in vv for u in W]
    for n in (1, 2, 3):
        for seq in itertools.product(vcomps, repeat=n):
            tot = sum(v * W[u] for v, u in seq)
            if tot >= 2 ** 32 or any(v * W[u] >= 2 ** 32 for v, u in seq):
                continue
            txt = ''.join('%d%s' % (v, u) for v, u in seq)
            cs.append((5, txt, tot))
            if n <= 2 or not quick:
                cs.append((5, txt.lower(), tot))
    cs += [(5, '1G2M3K4', (1 << 30) + (2 << 20) + (3 << 10) + 4), (5, '5B', 5), (5, '512', 512)]
    for bad in ('12z', 'pizza', '1x', '5Q', '1 K'):
        cs.append((5, bad, None))
    return cs


SUBNAME = {1: 'boolean', 2: 'integer', 3: 'float', 4: 'interval', 5: 'volume'}
GOOD = {1: ('yes', 1), 2: ('42', 42), 3: ('2.5', repr(2.5)), 4: ('7s', 7), 5: ('9B', 9)}


def _pv(dump, name):
    for c in dump.get('c', []):
        if c['n'] == name and c['t'] == 's':
            pv = c.get('pv')
            if c.get('st') == 3 and pv is not None:
                return repr(float(pv))
            return pv
    return 'absent'


def _typed_task(srv, item):
    out = []
    for st, text, want in item:
        reg = C.reg_string('t', None, st)
        f_good = ('t %s\n' % quote(GOOD[st][0])).encode()
        f = ('t %s\n' % quote(text)).encode('latin-1')
        if want is not None:
            h, res = srv.expand([reg], [C.load(f)])
            r = res[0]
            got = _pv(r['dump'], 't') if r.get('status') == 'ok' and r.get('rc') == 0 else ('%s rc=%s' % (r.get('status'), r.get('rc')))
            out.append((st, text, want, got, got == want))
        else:
            h, res = srv.expand([reg, C.load(f_good)], [C.load(f)])
            r = res[0]
            got = _pv(r['dump'], 't') if r.get('status') == 'ok' and r.get('rc') == 0 else ('%s rc=%s' % (r.get('status'), r.get('rc')))
            out.append((st, text, 'rejected, previous value %r stays' % (GOOD[st][1],), got, got == GOOD[st][1]))
    return out


def _typed_sequence_task(srv, item):
    """All five typed settings registered in ONE process; a file with extreme but legal literals (or a rejected file) is loaded first,
    then a file with ordinary values: every setting must deliver the ordinary value (nothing process-wide - errno, parser statics -
    may carry over from the earlier load)."""
    first = item
    regs = [C.reg_string('t%d' % st, None, st) for st in (1, 2, 3, 4, 5)]
    normal = {1: ('yes', 1), 2: ('42', 42), 3: ('2.5', repr(2.5)), 4: ('1h30', 3630), 5: ('3K', 3072)}
    f2 = ''.join('t%d %s\n' % (st, quote(v[0])) for st, v in normal.items()).encode()
    h, res = srv.expand(regs + [C.load(first)], [C.load(f2)])
    r = res[0]
    out = []
    for st, (txt, want) in normal.items():
        got = _pv(r['dump'], 't%d' % st) if r.get('status') == 'ok' and r.get('rc') == 0 else ('%s rc=%s' % (r.get('status'), r.get('rc')))
        out.append((st, txt, want, got, got == want, first.decode('latin-1')))
    return out


def _typed_default_task(srv, item):
    """An unparsable value met when there is no earlier file value: the value in force is the registered default, whether the setting was registered
    before the file was loaded or after it (the daemon loads its file before the modules register theirs)."""
    out = []
    for st, text in item:
        dtext, dval = GOOD[st]
        reg = C.reg_string('t', dtext, st)
        f = ('t %s\n' % quote(text)).encode('latin-1')
        for order, hist, cand in (('registered, then loaded', [reg], C.load(f)), ('loaded, then registered', [C.load(f)], reg)):
            h, res = srv.expand(hist, [cand])
            r = res[0]
            got = _pv(r['dump'], 't') if r.get('status') == 'ok' and r.get('rc') == 0 else ('%s rc=%s' % (r.get('status'), r.get('rc')))
            out.append((st, text, 'rejected, default %r stays (%s)' % (dval, order), got, got == dval))
        # no default at all: nothing is in force, the setting must read as zero - not as whatever the bytes of the rejected text happen to be
        zero = repr(0.0) if st == 3 else 0
        h, res = srv.expand([C.load(f)], [C.reg_string('t', None, st)])
        r = res[0]
        got = _pv(r['dump'], 't') if r.get('status') == 'ok' and r.get('rc') == 0 else ('%s rc=%s' % (r.get('status'), r.get('rc')))
        out.append((st, text, 'rejected, no default: %r (loaded, then registered)' % (zero,), got, got == zero))
    return out


def _float_step_task(srv, item):
    """A float setting moved by a tiny step between two loads delivers the second value exactly."""
    a, c = item
    reg = C.reg_string('t', None, 3)
    h, res = srv.expand([reg, C.load(('t "%s"\n' % a).encode())], [C.load(('t "%s"\n' % c).encode())])
    r = res[0]
    got = _pv(r['dump'], 't') if r.get('status') == 'ok' and r.get('rc') == 0 else ('%s rc=%s' % (r.get('status'), r.get('rc')))
    return [(3, '%s then %s' % (a, c), repr(float(c)), got, got == repr(float(c)))]


FLOAT_STEPS = [('0.1', '0.10000000000000012'), ('1', '1.0000000000000002'), ('3e-16', '1e-16'), ('0', '1e-16'), ('1e-16', '0'), ('2.5', '2.5000000000000004'), ('1e300', '1.0000000000000002e300'),
               ('-0.0', '0.0'), ('8', '8.000000000000002'), ('1e-320', '2e-320')]

EXTREME_FIRST = [b't3 "1e-400"\n', b't3 "1e999"\nt2 "7"\n', b't2 "99999999999999999999999"\n', b't3 "-1e999"\n', b't4 "99999999999y"\n', b't5 "9999999999G"\n',
                 b't2 "12z"\nt3 "x"\n', b't1 "maybe"\n', b't2 (unterminated\n', b't3 "0.0000000000000000000000000000000000000000000000000000000000000000000000000000000000000000000000000000001e-300"\n']


def describe(points, dev):
    return ', '.join('%s#%d=option %d' % (points[i][0], i, k) for i, k in sorted(dev.items())) or 'default rendering'


def classify(points, dev, text, status, rc):
    """Code-defined class of a failing rendering: by the labels of the deviating choice points (sorted)."""
    labs = sorted(points[i][0] for i in dev if i < len(points))
    return 'C16.' + ('rejected' if (status == 'ok' and rc != 0) else ('died' if status != 'ok' else 'tree-mismatch')) + '/' + ('+'.join(labs) or 'default')


def main(tier):
    run = common.Run('C16', 'exploration', tier)
    try:
        b = build.build()
    except RuntimeError as e:
        raise common.HarnessError(str(e))
    quick = run.tier == 'quick'
    T = trees(quick)
    cases = []          # (tree index, dev)
    for ti, t in enumerate(T):
        _, pts = render(t, {})
        cases.append((ti, {}))
        single = [(i, k) for i, (lab, n) in enumerate(pts) for k in range(1, n)]
        for i, k in single:
            cases.append((ti, {i: k}))
        if not quick or len(t) == 1:
            for (i1, k1), (i2, k2) in itertools.combinations(single, 2):
                if i1 != i2:
                    cases.append((ti, {i1: k1, i2: k2}))
    # bulk trees: many objects in one file, every choice point of one kind deviating the SAME way (24 one-line objects, 24 comment-laden ones ...): whatever a
    # parser accumulates per entry - a depth counter, a buffer, a line count - gets the chance to run over
    BULK = [[('o%02d' % k, 'o', [('a', 's', 'x'), ('b', 's', 'y')]) for k in range(24)],
            [('o', 'o', [('p%02d' % k, 'o', [('q', 's', 'v%d' % k)]) for k in range(20)])],
            [('l%02d' % k, 'l', ('a', 'b')) for k in range(24)] + [('s%02d' % k, 's', 'v') for k in range(24)]]
    for t in BULK:
        T.append(t)
        ti = len(T) - 1
        _, pts = render(t, {})
        cases.append((ti, {}))
        for lab in sorted({l for l, n in pts}):
            nmax = max(n for l, n in pts if l == lab)
            for k in range(1, nmax):
                dev = {i: k for i, (l, n) in enumerate(pts) if l == lab and k < n}
                if dev:
                    cases.append((ti, dev))
    batches, cur, cur2 = [], [], []
    texts = {}
    for cid, (ti, dev) in enumerate(cases):
        text, pts = render(T[ti], dev)
        cur.append((cid, text))
        if len(cur) >= 200:
            batches.append(cur); cur = []
        # second pass after rejected loads: the default rendering of every tree and every deviation of a list shape
        if not dev or any(pts[i][0] in ('list-shape', 'items') for i in dev if i < len(pts)):
            cur2.append((-cid - 1, text))
            if len(cur2) >= 200:
                batches.append(cur2); cur2 = []
    if cur:
        batches.append(cur)
    if cur2:
        batches.append(cur2)
    n_ok = n_rej = n_bad = 0
    distinct = set()
    nfiles = 0
    dev_hist = {0: 0, 1: 0, 2: 0}
    with C.Pool(b, 16) as pool:
        for res in pool.imap(_task, batches):
            if isinstance(res, dict):
                raise common.HarnessError(res['harness_error'])
            if run.out_of_time(20):
                run.cap('deadline after %d of %d files' % (nfiles, len(cases)))
                break
            for cid, status, rc, flat, err in res:
                after_broken = cid < 0
                if after_broken:
                    cid = -cid - 1
                ti, dev = cases[cid]
                text, pts = render(T[ti], dev)
                nfiles += 1
                dev_hist[min(len(dev), 2)] += 1
                distinct.add(text)
                want = sem(T[ti])
                if status == 'ok' and rc == 0 and flat == want:
                    n_ok += 1
                    continue
                n_bad += 1
                cls = classify(pts, dev, text, status, rc) + ('/after-rejected-load' if after_broken else '')
                if status != 'ok':
                    what = 'loading %r: process %s %s' % (text[:200], status, err.strip().splitlines()[-1:] )
                elif rc != 0:
                    n_rej += 1
                    what = 'documented syntax rejected (rc=%d): %r  [%s]' % (rc, text[:200], describe(pts, dev))
                else:
                    diffs = ['%s:%s read as %r, written %r' % (k[1], k[0], flat.get(k, '<absent>'), want.get(k, '<absent>')) for k in sorted(set(flat) | set(want)) if flat.get(k, '<absent>') != want.get(k, '<absent>')]
                    what = 'file %r read back as a different tree: %s  [%s]' % (text[:200], '; '.join(diffs[:3]), describe(pts, dev))
                if after_broken:
                    what = '[loaded after rejected loads of broken files in the same process] ' + what
                run.violation(cls, what, {'engine': 'conf', 'file': text, 'expected': [[k[0], k[1], v] for k, v in sorted(want.items())], 'deviations': describe(pts, dev),
                                          'after_broken': after_broken}, dedup=cls)
        # typed values
        tc = typed_cases(quick)
        tb = [tc[i:i + 100] for i in range(0, len(tc), 100)]
        n_typed = n_typed_bad = 0
        for res in (pool.imap(_typed_task, tb) if not run.capped else []):
            if isinstance(res, dict):
                raise common.HarnessError(res['harness_error'])
            for st, text, want, got, ok in res:
                n_typed += 1
                if not ok:
                    n_typed_bad += 1
                    unp = isinstance(want, str) and want.startswith('rejected')
                    cls = 'C16.typed/%s/%s' % (SUBNAME[st], 'unparsable-accepted' if unp else 'wrong-value')
                    run.violation(cls, '%s value %r: expected %s, the setting delivers %r' % (SUBNAME[st], text, want, got),
                                  {'engine': 'conf', 'typed': [st, text], 'expected': want}, dedup=cls)
        bads = [(st, text) for st, text, want in tc if want is None]
        for res in (pool.imap(_typed_default_task, [bads[k:k + 4] for k in range(0, len(bads), 4)]) if not run.capped else []):
            if isinstance(res, dict):
                raise common.HarnessError(res['harness_error'])
            for st, text, want, got, ok in res:
                n_typed += 1
                if not ok:
                    n_typed_bad += 1
                    run.violation('C16.typed/%s/default-lost' % SUBNAME[st], 'setting of subtype %s given the unparsable text %r: expected %s, the setting holds %r' % (SUBNAME[st], text, want, got),
                                  {'engine': 'conf', 'typed_default': [st, text]}, dedup='deflost|%d|%s' % (st, want[-30:]))
        for res in (pool.imap(_float_step_task, FLOAT_STEPS) if not run.capped else []):
            if isinstance(res, dict):
                raise common.HarnessError(res['harness_error'])
            for st, text, want, got, ok in res:
                n_typed += 1
                if not ok:
                    n_typed_bad += 1
                    run.violation('C16.typed/float/small-step', 'float setting loaded as %s: expected %s, the setting holds %r' % (text, want, got), {'engine': 'conf', 'float_step': text}, dedup='fstep')
        for res in (pool.imap(_typed_sequence_task, EXTREME_FIRST) if not run.capped else []):
            if isinstance(res, dict):
                raise common.HarnessError(res['harness_error'])
            for st, text, want, got, ok, first in res:
                n_typed += 1
                if not ok:
                    n_typed_bad += 1
                    cls = 'C16.typed/%s/after-earlier-load' % SUBNAME[st]
                    run.violation(cls, '%s value %r loaded after the file %r in the same process: expected %r, the setting delivers %r' % (SUBNAME[st], text, first, want, got),
                                  {'engine': 'conf', 'typed_sequence': first}, dedup=cls)
    if (n_ok < 1000 or n_typed < 500) and not run.violations and not run.capped:
        raise common.HarnessError('vacuous: %d files read back correctly, %d typed values' % (n_ok, n_typed))
    cov = {'evaluations': nfiles + n_typed, 'distinct_nontrivial': len(distinct) + n_typed,
           'rule': 'one evaluation = one generated file loaded by the real conf_read() into an empty tree in a fresh fork and compared with its generating tree (or one typed value '
                   'loaded into a registered typed setting); distinct = distinct file texts (renderings of different trees can coincide) + typed cases; all are non-trivial: every file '
                   'has at least one entry and reaches the entry parser',
           'samples': [render(T[ti], dev)[0] for ti, dev in (cases[0], cases[len(cases) // 3], cases[len(cases) // 2], cases[-1])],
           'exhaustive': not run.capped, 'trees': len(T), 'files': nfiles, 'files_by_number_of_deviations': dev_hist, 'read_back_correctly': n_ok, 'rejected': n_rej,
           'typed_values': n_typed, 'typed_values_wrong': n_typed_bad,
           'explanation': 'deviation-bounded enumeration of renderings: default, every single deviation at every choice point' + ('' if quick else ', every pair of deviations') +
                          ('; pairs only for single-entry trees in the quick tier' if quick else '')}
    return run.finish(cov, assumptions=['names are compared case-insensitively by the parser; case variants of one name are not in the universe (the documentation is silent)',
                                        'an empty file is outside the documented grammar (contents needs at least one entry) and is not generated',
                                        'typed values in range only (sums below 2^32)'])


def replay(obj):
    r = obj['replay']
    b = build.build()
    with C.Server(b) as s:
        if 'file' in r:
            h, res = s.expand([C.load(x) for x in BROKEN_PRELUDES] if r.get('after_broken') else [], [C.load(r['file'].encode('latin-1'))])
            x = res[0]
            got = flatten(x['dump']) if x.get('status') == 'ok' and x.get('rc') == 0 else None
            want = {(a, k): (tuple(v) if isinstance(v, list) else v) for a, k, v in r['expected']}
            print('file: %r\nstatus=%s rc=%s\nread:    %s\nwritten: %s' % (r['file'], x.get('status'), x.get('rc'), sorted(got.items()) if got is not None else None, sorted(want.items())))
            bad = got != want
        elif 'typed_sequence' in r:
            res = _typed_sequence_task(s, r['typed_sequence'].encode('latin-1'))
            print(res)
            bad = any(not x[4] for x in res)
        else:
            res = _typed_task(s, [tuple(r['typed']) + (None if str(r['expected']).startswith('rejected') else r['expected'],)])
            print(res)
            bad = not res[0][4]
    print('REPRODUCED' if bad else 'not reproduced')
    return 1 if bad else 0
