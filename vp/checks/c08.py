"""C08 - arbitrary input cannot crash or derail the daemon (DESIGN 5/C08).

Five exhaustive enumerations on the real daemon (ASan+UBSan build, watchdog, real exit path):
 1. every line shape: id token x command token x argument vectors (incl. the 16-slot boundary) x line endings,
    in three contexts (no client / fresh client / client with a stored password and an owed query);
 2. every byte string of length <= 5 over 12 protocol-relevant bytes, newline-terminated;
 3. every prefix of every corpus stream followed by end of input (peer death at any byte): exit status 0;
 4. every segmentation of corpus streams into read() chunks with <= 2 cuts: same output as unsegmented;
    over-long lines for every parameter-storing command;
 5. junk insensitivity: every corpus stream x every position x every junk line: outputs of the original
    lines and the final state are unchanged.
The corpus is the set of maximal histories of a closed protocol search (which also reports any crash on
well-formed histories)."""
import itertools, os, time
from . import pcommon
from .. import common, build, e1, e3, proto, psearch, alpha, tpool

CTX = {
    'none': [],
    'fresh': ['1 C 10.0.0.1 1111 10.9.9.9 6667'],
    'owed': ['1 C 10.0.0.1 1111 10.9.9.9 6667', '1 P :+x acct pass'],
}
# every line of a batch is run in the context one after the other: a reply that the daemon takes as final changes the context for the lines after it;
# the reply-text shapes therefore also run one per fresh context (see _reply_job)
BATCH = 96

def line_shapes(tier):
    ids = ['', '1', '-1', '7', 'x', '99999999999', ' ']
    cmds = list('CDNdPUunHTEMXx?') + ['Z', '', ':', 'CX', '\x80', '\xff', '\xfd', '\xc3\xa9', '\x7f', '@']
    atoms = ['a', ':', ':a b', '1_1', 'login.svc', 'stats', 'W' * 300, '10.0.0.1', '%s%n%d%%']
    vecs = [()]
    for n in (1, 2, 3):
        vecs += list(itertools.product(atoms, repeat=n))
    vecs += [('a',) * 15, ('a',) * 16, ('a',) * 17, ('a',) * 40]
    out = []
    for i in ids:
        for c in cmds:
            for v in vecs:
                base = ' '.join([i, c] + list(v)) if i != '' else ' '.join([c] + list(v))
                out.append(base.encode('latin-1') + b'\n')
                if len(v) <= 1:
                    out.append(base.encode('latin-1') + b'\r\n')
                    out.append(b' ' + base.encode('latin-1') + b' \n')
                    out.append(base.encode('latin-1')[:len(base) // 2] + b'\0' + base.encode('latin-1')[len(base) // 2:] + b'\n')
                    out.append(base.encode('latin-1') + b'\r')          # CR alone: stays in the buffer, joined with the next line
    return out

def reply_shapes():
    out = []
    # replies and unlinked notices with every boundary form of the reply text (a keyword alone, a keyword and a blank, nothing at all), for the awaited
    # service with the live tag, for another service and for another tag
    texts = ['NO', 'NO ', 'NO  ', 'AGAIN', 'AGAIN ', 'MORE', 'MORE ', 'OK', 'OK ', 'OK  ', 'OK a', 'O', 'N', '', ' ', 'NO\tx', 'OKAY', 'NOPE x', 'ok', 'no x', 'MOREOVER', 'AGAINST x',
             'NO ' + 'r' * 600, 'MORE ' + 'm' * 600]
    for svc in ('login.svc', 'drone.svc', 'nosuch.svc'):
        for tag in ('1_1', '1_2', 'zz'):
            for t in texts:
                out.append(('-1 X %s %s :%s' % (svc, tag, t)).encode() + b'\n')
                out.append(('-1 X %s %s %s' % (svc, tag, t)).encode() + b'\n')
            out.append(('-1 x %s %s' % (svc, tag)).encode() + b'\n')
            out.append(('-1 x %s %s :' % (svc, tag)).encode() + b'\n')
    return out

def byte_strings(tier):
    alpha_b = [b'1', b'-', b' ', b':', b'C', b'N', b'X', b'_', b'\n', b'\r', b'\0', b'a', b'\xff']
    L = 5 if tier == 'thorough' else 4
    out = []
    for n in range(0, L + 1):
        for t in itertools.product(alpha_b, repeat=n):
            out.append(b''.join(t) + b'\n')
    return out

# ---- jobs (run in pool workers, each owning a fork server) ---------------------------------------------
def _batch_job(server, item):
    """item: (ctxname, [bytes lines]) -> crashes [(line index in batch, status, stderr, prefix lines)]"""
    ctxname, lines = item
    ctx = [('L', (l + '\n').encode()) for l in CTX[ctxname]]
    crashes = []
    start = 0
    n_exec = 0
    while start < len(lines):
        evs = ctx + [('L', l) for l in lines[start:]] + [('E',)]
        res, status, err, ex = server.trace(evs, 0)
        done = len(res) - len(ctx)
        if status == 'ok' and len(res) == len(evs):
            n_exec += len(lines) - start
            break
        # the event after the last completed one killed the daemon (or the exit path failed)
        k = start + max(done, 0)
        n_exec += max(done, 0) + 1
        if k >= len(lines):
            crashes.append((len(lines), status, err[-2500:], 'exit-path'))
            break
        crashes.append((k, status, err[-2500:], 'line'))
        start = k + 1
    return {'ctx': ctxname, 'crashes': crashes, 'n': n_exec, 'lines': lines}

def _reply_job(server, item):
    """one reply line in a fresh context in which the named service owes client 1 an answer; then a stats request and end of input"""
    ctxname, line = item
    ctx = [('L', (l + '\n').encode()) for l in RCTX[ctxname]]
    res, status, err, ex = server.trace(ctx + [('L', line), ('L', b'-1 ? stats\n'), ('E',)], 0)
    ok = status == 'ok' and len(res) == len(ctx) + 3
    return {'ctx': ctxname, 'line': line, 'ok': ok, 'status': status, 'err': err[-2500:]}

RCTX = {'login-owes': ['1 C 10.0.0.1 1111 10.9.9.9 6667', '1 P :+x acct pass'],
        'drone-owes': ['1 C 10.0.0.1 1111 10.9.9.9 6667', '1 H'],
        'both-owe-after-junk': ['7 n junkjunkjunk', '1 C 10.0.0.1 1111 10.9.9.9 6667', '1 U user :A Real Name Of Some Length', '1 P :+x acct pass', '1 H']}

def _prefix_job(server, item):
    sid, data, offsets = item
    bad = []
    for off in offsets:
        res, status, err, ex = server.trace([('L', data[:off]), ('E',)], 0)
        if status != 'ok' or len(res) != 2:
            bad.append((off, status, err[-2000:]))
    return {'sid': sid, 'bad': bad, 'n': len(offsets)}

def _flat(res):
    return [l for r in res for l in r.out]

def _seg_job(server, item):
    sid, data, c1, c2s, base = item
    bad = []
    n = 0
    for c2 in c2s:
        chunks = [data[:c1], data[c1:c2], data[c2:]] if c2 is not None else [data[:c1], data[c1:]]
        res, status, err, ex = server.trace([('L', c) for c in chunks if c] + [('E',)], 0)
        n += 1
        if status != 'ok':
            bad.append((c1, c2, 'died: ' + status, err[-1500:]))
        elif _flat(res) != base:
            bad.append((c1, c2, 'output differs', repr(_flat(res))[:600]))
    return {'sid': sid, 'bad': bad, 'n': n}

def _long_job(server, item):
    name, line = item
    ctx = [('L', (l + '\n').encode()) for l in CTX['owed']]
    res, status, err, ex = server.trace(ctx + [('L', line), ('L', b'-1 ? stats\n'), ('E',)], 0)
    ok = status == 'ok' and len(res) == len(ctx) + 3
    # the long line itself arrives in several 4096-byte reads
    out = {'name': name, 'len': len(line), 'ok': ok, 'status': status, 'err': err[-1500:], 'chunk_diff': None, 'nsplit': 0}
    if ok and line.endswith(b'\n') and len(line) > 600:
        # the same line delivered in two pieces (its tail arrives with a later read): the treatment must be the same
        whole = [tuple(common.mask_time(l) for l in r.out) for r in res[len(ctx):len(ctx) + 2]]
        flat = [l for o in whole for l in o]
        for cut in sorted({300, 2048, 2049, 2500, 4096, len(line) - 2}):
            if not 0 < cut < len(line) - 1:
                continue
            r2, st2, err2, ex2 = server.trace(ctx + [('L', line[:cut]), ('L', line[cut:]), ('L', b'-1 ? stats\n')], 0)
            out['nsplit'] += 1
            f2 = [common.mask_time(l) for r in r2[len(ctx):] for l in r.out]
            if st2 != 'ok' or f2 != flat:
                out['chunk_diff'] = (cut, st2, f2[:6], flat[:6])
                break
    return out

def _conv_job(server, item):
    name, data = item
    evs = [('L', l + b'\n') for l in data.split(b'\n') if l] + [('E',)]
    res, status, err, ex = server.trace(evs, 0)
    ok = status == 'ok' and len(res) == len(evs)
    return {'name': name, 'value': data.decode('latin-1').split('\n')[3], 'ok': ok, 'status': status, 'err': err[-1500:], 'bytes': data.decode('latin-1')}


def _junk_job(server, item):
    sid, lines, pos, junk, base_outs, base_dump = item
    evs = [('L', l) for l in lines[:pos]] + [('L', junk)] + [('L', l) for l in lines[pos:]]
    res, status, err, ex = server.trace(evs, e1.F_DUMP)
    if status != 'ok' or len(res) != len(evs):
        return {'sid': sid, 'bad': 'daemon died (%s) with junk line %r at position %d' % (status, junk, pos), 'err': err[-1500:]}
    outs = [r.out for n, r in enumerate(res) if n != pos]
    if outs != base_outs:
        return {'sid': sid, 'bad': 'junk line %r at position %d changed the treatment of the other lines: %r instead of %r' % (junk, pos, outs, base_outs), 'err': ''}
    d = psearch.canon_dump(res[-1].dump if pos != len(lines) else res[-2].dump if len(res) > 1 and False else res[-1].dump, True, True)
    if d != base_dump:
        return {'sid': sid, 'bad': 'junk line %r at position %d changed the final state: %s' % (junk, pos, psearch._first_diff(base_dump, d)), 'err': ''}
    return {'sid': sid, 'bad': None}

def _base_job(server, item):
    sid, lines = item
    res, status, err, ex = server.trace([('L', l) for l in lines], e1.F_DUMP)
    if status != 'ok' or len(res) != len(lines):
        return {'sid': sid, 'ok': False}
    return {'sid': sid, 'ok': True, 'outs': [r.out for r in res], 'dump': psearch.canon_dump(res[-1].dump, True, True), 'flat': _flat(res)}

JUNK = [b'77 N host\n', b'77 D\n', b'77 T\n', b'77 P :x y z\n', b'77 H\n', b'77 u\n', b'1 Z foo\n', b'1 z\n', b'-1 Z\n', b'\n', b'   \n', b'\r\n',
        b'-1 X login.svc zz_1 :OK a\n', b'-1 X nosuch.svc 1_1 :OK a\n', b'-1 X login.svc 1_99 :NO x\n', b'-1 x login.svc 77_1 :gone\n',
        b'-1 X login.svc 1_ :OK a\n', b'-1 X login.svc\n', b'-1 x\n', b'-1 E a b\n', b'-1 M srv 100\n', b'-1 M\n', b'77 C 1.2.3.4\n', b'77 C\n', b'-1 ?\n',
        b'77 U u\n', b'77 n\n',
        # numbers no 32-bit variable holds: an id 2^32 away from the live client's, ids and numerals beyond 64 bits
        b'4294967297 D\n', b'4294967297 N evil.example\n', b'-4294967295 D\n', b'99999999999999999999 D\n', b'99999999999999999999 N h\n', b'-99999999999999999999 D\n',
        b'-1 X login.svc ffffffffffffffffffffffff_1 :OK a\n', b'-1 X login.svc 1_ffffffffffffffffffffffff :NO x\n', b'-1 X login.svc 100000001_1 :NO x\n',
        b'-1 X login.svc 1_100000001 :NO x\n', b'-1 M srv 99999999999999999999\n',
        # lines without an id (they name nobody, in particular not client 0), and tags that are not the text the daemon sent although strtol() would read
        # the live client's numbers out of them: explicit signs, 0x prefixes, an empty id, a serial written as a negative number
        b'D\n', b'T\n', b'H\n', b'N ghost.example\n', b' D\n', b'P :+x a b\n', b': D\n',
        b'-1 X login.svc _1 :NO x\n', b'-1 X login.svc +0_+1 :NO x\n', b'-1 X login.svc 0x0_0x1 :NO x\n', b'-1 X login.svc 0_-ffffffffffffffff :NO x\n', b'-1 X login.svc -0_1 :NO x\n',
        b'-1 X login.svc +1_+1 :NO x\n', b'-1 X login.svc +1_+2 :NO x\n', b'-1 X login.svc 0x1_0x1 :NO x\n', b'-1 X login.svc 0X1_0X2 :NO x\n',
        b'-1 X login.svc 1_-ffffffffffffffff :NO x\n', b'-1 X login.svc 1_-fffffffffffffffe :NO x\n']
# a stream about client 0 (a legal id): what a line without an id, or a tag without one, must not be taken for
ZERO_STREAM = [b'0 C 10.0.0.9 999 10.9.9.9 6667\n', b'0 N host0.example.net\n', b'0 u ident0\n', b'0 P :+x acct0 pass0\n', b'0 n Nick0\n', b'0 U user0 :Real Name 0\n',
               b'-1 X drone.svc 0_1 :OK\n', b'-1 X login.svc 0_1 :OK acct0:7\n']

def main(tier):
    run = common.Run('C08', 'exploration', tier)
    try:
        b = build.build()
    except RuntimeError as e:
        raise common.HarnessError(str(e))
    services = pcommon.G['login+drone']
    rules = pcommon.rules_for(services)
    conf = e1.conf_text(os.path.join(b, 'mods-wrapped'), services=services, timeout=30, rules=rules)
    counts = {}
    evaluations = 0
    # ---- corpus: maximal histories of a closed protocol search (also: crashes on well-formed histories)
    s = psearch.Search(run, services, rules, 30, [1], alpha.scen_orders([1]) if tier == 'quick' else alpha.scen_hurry([1]), label='corpus')
    s.go()
    evaluations += s.transitions
    for sid, ev, cev, cr in s.crashes:
        run.violation('C08.crash-wellformed', 'the daemon died (%s) on the well-formed line %r after %s' % (cr['status'], cev[1], ' | '.join(proto.ev_str(e) for e in s.sym_history(sid))),
                      s.replay_obj(sid, ev, cev, {'clause': 'C08.crash', 'stderr': cr['err']}), dedup='wf|' + ev[0])
    # ... and on histories in which the timeout setting itself is reloaded while a client waits (challenge replies included)
    spec = pcommon.reload_search(tier, 'timeout')
    kw = dict(spec); kw.pop('merge_check', None); label2 = kw.pop('label')
    s2 = psearch.Search(run, kw.pop('services'), kw.pop('rules'), kw.pop('timeout'), kw.pop('ids'), kw.pop('alphabet'), label=label2, **kw)
    s2.go()
    evaluations += s2.transitions
    for sid, ev, cev, cr in s2.crashes:
        run.violation('C08.crash-wellformed', 'the daemon died (%s) on %s after %s' % (cr['status'], proto.ev_str(ev), ' | '.join(proto.ev_str(e) for e in s2.sym_history(sid))),
                      s2.replay_obj(sid, ev, cev, {'clause': 'C08.crash', 'stderr': cr['err']}), dedup='wf2|' + ev[0])
    streams = []
    seen = set()
    for tr in s.maximal_traces():
        lines = []
        for sym, cev, out in tr:
            if cev[0] != 'L':
                break
            lines.append(cev[1] if isinstance(cev[1], bytes) else cev[1].encode('latin-1'))
        if len(lines) >= 3 and tuple(lines) not in seen:
            seen.add(tuple(lines))
            streams.append(lines)
    streams.sort(key=lambda l: (-len(l), l))
    nstreams = 60 if tier == 'quick' else 200
    streams = streams[:: max(1, len(streams) // nstreams)][:nstreams]
    if len(streams) < 10 and not run.violations and not run.capped:
        raise common.HarnessError('vacuous: corpus has only %d streams' % len(streams))
    streams.insert(0, list(ZERO_STREAM))
    counts['corpus_streams'] = len(streams)

    with tpool.TracePool(conf, b) as tp:
        # ---- 1 + 2: line shapes and byte strings, batched
        shapes = line_shapes(tier)
        bstr = byte_strings(tier)
        items = []
        for ctxname in CTX:
            for k in range(0, len(shapes), BATCH):
                items.append((ctxname, shapes[k:k + BATCH]))
        for ctxname in ('none', 'owed'):
            for k in range(0, len(bstr), BATCH * 2):
                items.append((ctxname, bstr[k:k + BATCH * 2]))
        nlines = 0
        crash_sites = {}
        for r in tp.imap(_batch_job, items, chunksize=2):
            if 'harness_error' in r:
                raise common.HarnessError(r['harness_error'])
            nlines += r['n']
            for k, status, err, kind in r['crashes']:
                if kind == 'exit-path':
                    run.violation('C08.exit-after-junk', '[context %s] after a batch of junk lines end of input did not lead to a clean exit: %s' % (r['ctx'], status),
                                  {'engine': 'E1-trace', 'conf': conf, 'context': CTX[r['ctx']], 'lines': [l.decode('latin-1') for l in r['lines']], 'then': 'eof', 'stderr': err}, dedup='exit|' + r['ctx'] + status)
                    continue
                line = r['lines'][k]
                site = _site(err)
                crash_sites.setdefault(site, 0)
                crash_sites[site] += 1
                run.violation('C08.crash/' + site, '[context %s] the daemon died (%s) on input line %r  (%s)' % (r['ctx'], status, line, site),
                              {'engine': 'E1-trace', 'conf': conf, 'context': CTX[r['ctx']], 'lines': [l.decode('latin-1') for l in r['lines'][:k + 1]], 'stderr': err}, dedup='crash|' + site + '|' + r['ctx'])
        # ---- reply texts, each in a fresh context where the service owes an answer
        rs = reply_shapes()
        nreply = 0
        for r in tp.imap(_reply_job, [(c, l) for c in RCTX for l in rs], chunksize=8):
            if 'harness_error' in r:
                raise common.HarnessError(r['harness_error'])
            nreply += 1
            if not r['ok']:
                site = _site(r['err'])
                run.violation('C08.crash/' + site, '[context %s] the daemon died (%s) on the reply line %r  (%s)' % (r['ctx'], r['status'], r['line'], site),
                              {'engine': 'E1-trace', 'conf': conf, 'context': RCTX[r['ctx']], 'lines': [r['line'].decode('latin-1')], 'stderr': r['err']}, dedup='reply|' + site)
        counts['reply_lines'] = nreply
        nlines += nreply
        counts['lines_executed'] = nlines
        counts['line_shapes'] = len(shapes); counts['byte_strings'] = len(bstr)
        counts['crash_sites'] = crash_sites
        evaluations += nlines

        # ---- base runs of the corpus
        base = {}
        for r in tp.imap(_base_job, list(enumerate(streams)), chunksize=4):
            if r.get('ok'):
                base[r['sid']] = r
        if len(base) < len(streams) // 2:
            raise common.HarnessError('corpus streams do not run cleanly (%d of %d)' % (len(base), len(streams)))

        # ---- 3: every prefix, then end of input
        items = []
        for sid in base:
            data = b''.join(streams[sid])
            offs = list(range(0, len(data) + 1))
            for k in range(0, len(offs), 40):
                items.append((sid, data, offs[k:k + 40]))
        nprefix = 0
        for r in tp.imap(_prefix_job, items, chunksize=1):
            if 'harness_error' in r:
                raise common.HarnessError(r['harness_error'])
            nprefix += r['n']
            for off, status, err in r['bad']:
                data = b''.join(streams[r['sid']])
                run.violation('C08.prefix-exit', 'input ends after byte %d of stream %r...: exit path gives %s instead of a clean exit' % (off, data[:off][-60:], status),
                              {'engine': 'E1-trace', 'conf': conf, 'bytes': data[:off].decode('latin-1'), 'then': 'eof', 'stderr': err}, dedup='prefix|' + status + '|' + _site(err))
        counts['prefixes'] = nprefix
        evaluations += nprefix

        # ---- 4: every segmentation with <= 2 cuts
        nseg_streams = 4 if tier == 'quick' else 12
        seg_ids = sorted(base, key=lambda sid: -len(b''.join(streams[sid])))[:nseg_streams]
        items = []
        for sid in seg_ids:
            data = b''.join(streams[sid])[:170 if tier == 'quick' else 260]
            # the truncated stream needs its own base output
            res, status, err, ex = None, None, None, None
            items.append(('base', sid, data))
        if seg_ids:
            # the same bytes with CRLF line ends (a cut may then fall between the CR and the LF)
            items.append(('base', -1, b''.join(streams[seg_ids[0]])[:150].replace(b'\n', b'\r\n')))
        seg_base = {}
        for r in tp.imap(_segbase_job, items, chunksize=1):
            seg_base[r['sid']] = (r['data'], r['flat'])
        items = []
        for sid, (data, flat) in seg_base.items():
            n = len(data)
            for c1 in range(1, n):
                items.append((sid, data, c1, [None] + list(range(c1 + 1, n)), flat))
        nseg = 0
        for r in tp.imap(_seg_job, items, chunksize=1):
            if 'harness_error' in r:
                raise common.HarnessError(r['harness_error'])
            nseg += r['n']
            for c1, c2, what, detail in r['bad']:
                data = seg_base[r['sid']][0]
                run.violation('C08.chunking', 'stream cut into read() chunks at bytes %s: %s (%s)' % ((c1, c2), what, detail[:300]),
                              {'engine': 'E1-trace', 'conf': conf, 'bytes': data.decode('latin-1'), 'cuts': [c1, c2]}, dedup='chunk|' + what)
        counts['segmentations'] = nseg
        evaluations += nseg

        # ---- over-long lines
        longs = []
        for L in (510, 1023, 1024, 1025, 2040, 2049, 3000, 4095, 4096, 4097, 8192, 20000):
            w = 'Q' * L
            longs += [('N', b'1 N %s\n' % w.encode()), ('u', b'1 u %s\n' % w.encode()), ('n', b'1 n %s\n' % w.encode()),
                      ('U', b'1 U %s :%s\n' % (w.encode(), w.encode())), ('P', b'1 P :+x %s %s\n' % (w.encode(), w.encode())),
                      ('C', b'2 C %s 1 %s 2\n' % (w.encode(), w.encode())), ('X', b'-1 X login.svc 1_1 :OK %s\n' % w.encode()),
                      ('Xno', b'-1 X login.svc 1_1 :NO %s\n' % w.encode()), ('Xmore', b'-1 X login.svc 1_1 :MORE %s\n' % w.encode()),
                      ('?', b'-1 ? %s\n' % w.encode()), ('svc', b'-1 X %s 1_1 :OK\n' % w.encode()), ('tag', b'-1 X login.svc %s :OK\n' % w.encode()),
                      ('id', b'%s C 1.2.3.4 1 1.2.3.4 2\n' % (b'9' * L)), ('nonl', w.encode())]
        nlong = 0
        for r in tp.imap(_long_job, longs, chunksize=2):
            if 'harness_error' in r:
                raise common.HarnessError(r['harness_error'])
            nlong += 1 + r.get('nsplit', 0)
            if r.get('chunk_diff'):
                cut, st2, f2, flat = r['chunk_diff']
                run.violation('C08.long-line-chunking', 'a %d-byte %s line delivered in two reads (cut at byte %d) is treated differently from the same line in one piece: %s %r instead of %r'
                              % (r['len'], r['name'], cut, st2, f2, flat), {'engine': 'E1-trace', 'conf': conf, 'kind': r['name'], 'length': r['len'], 'cut': cut}, dedup='longchunk|' + r['name'])
            if not r['ok']:
                run.violation('C08.long-line', 'over-long %s line (%d bytes): %s %s' % (r['name'], r['len'], r['status'], _site(r['err'])),
                              {'engine': 'E1-trace', 'conf': conf, 'kind': r['name'], 'length': r['len'], 'stderr': r['err']}, dedup='long|' + r['name'] + _site(r['err']))
        counts['long_lines'] = nlong
        evaluations += nlong

        # ---- hostile field contents carried through complete conversations (queries, relays, verdicts, class rules)
        hostile = ['%s%s%s%s%n', '%999999999d%n', '%*d%-2000s', 'A' * 700, '\x01\x02\x7f\xff', ':lead', 'a:b:c', '*?[x]\\', '~', '-', '0']
        convs = []
        for pos in range(10):
            for h in hostile:
                f = ['nick', 'user', 'ident', 'host.example', 'Real Name', 'acct', 'pass', 'acct:7', 'reason text', 'cls']
                f[pos] = h
                lines = ['1 C 10.0.0.1 1111 10.9.9.9 6667', '1 N %s' % f[3], '1 u %s' % f[2], '1 n %s' % f[0], '1 U %s :%s' % (f[1], f[4]), '1 P :+x %s %s' % (f[5], f[6]),
                         '1 H %s' % f[9], '-1 X login.svc 1_1 :MORE %s' % f[8], '1 P :%s' % f[6], '-1 X login.svc 1_1 :OK %s' % f[7], '-1 X drone.svc 1_1 :AGAIN %s' % f[8],
                         '2 C 10.0.0.2 2222 10.9.9.9 6667', '2 H', '2 P :+! %s %s' % (f[5], f[6]), '-1 X login.svc 2_2 :NO %s' % f[8], '-1 ? stats', '-1 ? config']
                convs.append(('field%d' % pos, ('\n'.join(lines) + '\n').encode('latin-1')))
        nconv = 0
        for r in tp.imap(_conv_job, convs, chunksize=4):
            if 'harness_error' in r:
                raise common.HarnessError(r['harness_error'])
            nconv += 1
            if not r['ok']:
                run.violation('C08.hostile-field', 'a conversation whose %s carries %r: %s %s' % (r['name'], r['value'][:40], r['status'], _site(r['err'])),
                              {'engine': 'E1-trace', 'conf': conf, 'bytes': r['bytes'], 'stderr': r['err']}, dedup='hostile|' + r['name'] + _site(r['err']))
        counts['hostile_field_conversations'] = nconv
        evaluations += nconv

        # ---- 5: junk insensitivity
        items = []
        jstreams = sorted(base)[: (12 if tier == 'quick' else 40)]
        for sid in jstreams:
            lines = streams[sid]
            for pos in range(0, len(lines) + 1):
                for j in JUNK:
                    items.append((sid, lines, pos, j, base[sid]['outs'], base[sid]['dump']))
            # lines for the stream's own client id BEFORE the server has announced it are junk as well (a withdrawn or never announced id)
            first = lines[0].split(b' ')
            if len(first) > 1 and first[1] == b'C':
                for j in (b'%s D\n', b'%s T\n', b'%s N early.host\n', b'%s H\n', b'%s Z foo\n', b'%s P :+x a b\n'):
                    items.append((sid, lines, 0, j % first[0], base[sid]['outs'], base[sid]['dump']))
        njunk = 0
        for r in tp.imap(_junk_job, items, chunksize=8):
            if 'harness_error' in r:
                raise common.HarnessError(r['harness_error'])
            njunk += 1
            if r['bad']:
                run.violation('C08.junk-sensitivity', r['bad'][:600], {'engine': 'E1-trace', 'conf': conf, 'stream': [l.decode('latin-1') for l in streams[r['sid']]], 'detail': r['bad'], 'stderr': r.get('err', '')},
                              dedup='junk|' + r['bad'].split(' at position')[0][:80])
        counts['junk_insertions'] = njunk
        evaluations += njunk

    # ---- E3: real pipe, real loop: prefixes and chunked delivery for a few streams
    ne3 = e3_pass(run, b, streams, base, tier)
    counts['e3_runs'] = ne3
    evaluations += ne3
    distinct = len(set(shapes)) + len(set(bstr)) + counts['prefixes'] + counts['segmentations']
    cov = {'evaluations': evaluations, 'distinct_nontrivial': distinct,
           'rule': 'distinct = distinct input lines / byte strings + distinct (stream, prefix) + distinct (stream, cut set); every one reaches the line splitter and tokenizer; '
                   'each enumerated set is complete for its stated alphabet and bound',
           'samples': [repr(shapes[7]), repr(shapes[len(shapes) // 2]), repr(bstr[-1]), repr(b''.join(streams[0])[:200])],
           'exhaustive': True, 'corpus_search': {'states': len(s.states), 'transitions': s.transitions, 'fixpoint': s.complete}, **counts}
    return run.finish(cov, assumptions=['memory oracle = ASan/UBSan build; hang oracle = 20 s watchdog per trace of <= %d lines' % BATCH,
                                        'lines inside one batch run in one process, so later lines see the state earlier junk left behind (itself a valid history)'])

def _segbase_job(server, item):
    _, sid, data = item
    res, status, err, ex = server.trace([('L', data), ('E',)], 0)
    return {'sid': sid, 'data': data, 'flat': _flat(res), 'status': status}

def _site(err):
    for l in err.splitlines():
        l = l.strip()
        if l.startswith('#') and (' in ' in l) and ('/repo/' in l or 'modules/' in l or 'src/' in l):
            f = l.split(' in ')[1].split(' ')[0]
            return f
    for l in err.splitlines():
        if 'runtime error' in l:
            return l.split('/')[-1].split(' ')[0]
    return 'unknown'

def e3_pass(run, b, streams, base, tier):
    conf = e3.plain_conf(b, services=pcommon.G['login+drone'], timeout=30, rules=pcommon.rules_for(pcommon.G['login+drone']))
    n = 0
    from concurrent.futures import ThreadPoolExecutor
    jobs = []
    for sid in sorted(base)[: (6 if tier == 'quick' else 20)]:
        data = b''.join(streams[sid])
        for off in range(0, len(data) + 1, 7):
            jobs.append(('prefix', sid, data[:off], None))
        for c1 in range(1, len(data), max(1, len(data) // 6)):
            jobs.append(('chunks', sid, data, c1))
    def one(j):
        kind, sid, data, c1 = j
        if kind == 'prefix':
            rc, out, err, ok = e3.run_stream(conf, [data], b=b)
            return j, rc, out, err
        rc, out, err, ok = e3.run_stream(conf, [data[:c1], data[c1:]], b=b, gap=0.03)
        return j, rc, out, err
    with ThreadPoolExecutor(12) as ex:
        for (kind, sid, data, c1), rc, out, err in ex.map(one, jobs):
            n += 1
            if rc != 0 or 'ERROR:' in err:
                run.violation('C08.e3-' + kind, 'unmodified daemon, real pipe: %s of stream %d (%d bytes, cut %s): rc=%s %s' % (kind, sid, len(data), c1, rc, err.strip().splitlines()[:2]),
                              {'engine': 'E3', 'conf': conf, 'bytes': data.decode('latin-1'), 'cut': c1, 'stderr': err[-2000:]}, dedup='e3|' + kind + str(rc))
            elif kind == 'chunks':
                want = base[sid]['flat']
                got = [l for l in out if not (l.startswith('V :') or l.startswith('A ') or l == 'a' or l.startswith('O '))]
                if got != want:
                    run.violation('C08.e3-chunks', 'unmodified daemon: stream %d delivered in two writes (cut at %d) gives different output' % (sid, c1),
                                  {'engine': 'E3', 'conf': conf, 'bytes': data.decode('latin-1'), 'cut': c1, 'got': got, 'want': want}, dedup='e3chunkdiff')
    # a burst of many short lines: delivered in ONE write (one read() hands the daemon hundreds of complete lines), in 1000-byte
    # and 97-byte pieces, and line by line - the daemon's output must be the same and it must exit cleanly at end of input
    lines = []
    for k in range(60):
        i = 100 + k
        lines += ['%d C 10.0.%d.%d %d 10.9.9.9 6667' % (i, k // 200, k % 200 + 1, 2000 + k), '%d H' % i, '-1 X drone.svc %x_%x :OK' % (i, k + 1), '%d T' % i]
    data = ('\n'.join(lines) + '\n-1 ? stats\n').encode()
    variants = {'one write': [data], '1000-byte pieces': [data[i:i + 1000] for i in range(0, len(data), 1000)], '97-byte pieces': [data[i:i + 97] for i in range(0, len(data), 97)],
                'line by line': [l + b'\n' for l in data.split(b'\n') if l]}
    outs = {}
    for name, chunks in variants.items():
        rc, out, err, ok = e3.run_stream(conf, chunks, b=b, gap=0.002 if name != 'one write' else 0.0, timeout=60)
        n += 1
        outs[name] = [common.mask_time(l) for l in out if not l.startswith('S ')]
        if rc != 0 or 'ERROR:' in err:
            run.violation('C08.e3-burst', 'unmodified daemon, %d lines delivered as %s: rc=%s %s' % (len(lines), name, rc, err.strip().splitlines()[:2]),
                          {'engine': 'E3', 'conf': conf, 'bytes': data.decode('latin-1')[:2000], 'delivery': name}, dedup='burst-rc|' + name)
    ref = outs['line by line']
    if sum(1 for l in ref if l.startswith('D ')) != 60 and not run.violations:
        raise common.HarnessError('burst: the line-by-line reference run did not accept the 60 clients: %r' % ref[-5:])
    for name, o in outs.items():
        if o != ref:
            k = next((i for i in range(min(len(o), len(ref))) if o[i] != ref[i]), min(len(o), len(ref)))
            run.violation('C08.e3-burst', 'unmodified daemon: %d lines delivered as %s give different output than line by line (first difference at output line %d: %r vs %r; %d vs %d lines)'
                          % (len(lines), name, k, o[k] if k < len(o) else None, ref[k] if k < len(ref) else None, len(o), len(ref)),
                          {'engine': 'E3', 'conf': conf, 'bytes': data.decode('latin-1')[:2000], 'delivery': name}, dedup='burst-diff|' + name)
    return n

def replay(obj):
    r = obj['replay']
    b = build.build()
    if r.get('engine') == 'E1':
        return pcommon.replay(obj)
    if r.get('engine') == 'E1-trace':
        with e1.Server(r['conf'], builddir=b) as srv:
            evs = [('L', l + '\n') for l in r.get('context', [])]
            if 'lines' in r:
                evs += [('L', l) for l in r['lines']]
            if 'bytes' in r:
                cuts = [c for c in r.get('cuts', []) if c]
                data = r['bytes']
                pos = 0
                for c in cuts + [len(data)]:
                    evs.append(('L', data[pos:c])); pos = c
            if r.get('then') == 'eof' or 'bytes' in r:
                evs.append(('E',))
            res, status, err, ex = srv.trace(evs, 0)
            for e, x in zip(evs, res):
                print(repr(e)[:160], '->', x.out)
            print('final status:', status)
            print(err[-1500:])
            return 0 if status == 'ok' and len(res) == len(evs) else 1
    print(str(r)[:3000])
    return 1
