"""C04 - replies affect only the client instance they were asked about (DESIGN 5/C04).
State form: a stray reply (stale serial, malformed tag, unknown or not-awaited service) produces no output
and leaves the *unprojected* state dump (serials, counters included) unchanged, in every reachable state.
Serial sweep: the same stale-tag probes when the live instance is the n-th announcement of the daemon's life, for a
boundary list of n up to 65537 (the searches abstract serial numbers to ranks; this covers what that cannot see)."""
from . import pcommon
NEED = ('stray-old', 'stray-malformed', 'stray-ghost', 'stray-notowed', 'reannounce-live', 'withdraw-while-owed')

from .. import alpha, e1


def reload_alphabet(ids):
    """Hurry-up scenario of one client plus reloads of the service table at any point: the awaited login service is removed,
    a differently named login service (ghost.svc) is added - possibly into the vacated slot - or the original table returns."""
    base = alpha.make(ids, data=('H',), ends=('D',), passwords=('x', 'bang'), replies=('OKA', 'MORE'), old_replies=(), malformed=(),
                      ghost_replies=('OKA', 'MORE'), pbudget=2, dead_probes=False, reannounce=False)
    def fn(st, w):
        return base(st, w) + [('RL', 'none.conf'), ('RL', 'ghost.conf'), ('RL', 'orig.conf')]
    return fn


def reload_search(tier):
    services = [('login.svc', 'login')]
    rules = pcommon.rules_for(services)
    files = {'none.conf': lambda md: e1.conf_text(md, services=[], timeout=0, rules=rules),
             'ghost.conf': lambda md: e1.conf_text(md, services=[('ghost.svc', 'login')], timeout=0, rules=rules),
             'orig.conf': lambda md: e1.conf_text(md, services=services, timeout=0, rules=rules)}
    return dict(label='solo/reloads/login/t0', services=services, rules=rules, timeout=0, ids=[1], alphabet=reload_alphabet([1]), flags=e1.F_DUMP | e1.F_STATS,
                maxdepth=12 if tier != 'quick' else 8, maxstates=60000 if tier != 'quick' else 6000, keep_refs=True, reload_files=files, merge_check=False)


def plan(tier):
    p = pcommon.plan_solo(tier, which=('hurry',)) if tier == 'quick' else pcommon.plan_solo(tier)
    return p + [reload_search(tier)]

def main(tier):
    return pcommon.run_plan('C04', tier, plan(tier), ('C04.',), NEED, extra_cov=lambda run: pcommon.serial_sweep(run, ('C04.',)))

replay = pcommon.replay
