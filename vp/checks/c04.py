"""C04 - replies affect only the client instance they were asked about (DESIGN 5/C04).
State form: a stray reply (stale serial, malformed tag, unknown or not-awaited service) produces no output
and leaves the *unprojected* state dump (serials, counters included) unchanged, in every reachable state.
Serial sweep: the same stale-tag probes when the live instance is the n-th announcement of the daemon's life, for a
boundary list of n up to 65537 (the searches abstract serial numbers to ranks; this covers what that cannot see)."""
from . import pcommon
NEED = ('stray-old', 'stray-malformed', 'stray-ghost', 'stray-notowed', 'reannounce-live', 'withdraw-while-owed')

def plan(tier):
    p = pcommon.plan_solo(tier, which=('hurry',)) if tier == 'quick' else pcommon.plan_solo(tier)
    return p + [pcommon.reload_search(tier)]

def main(tier):
    return pcommon.run_plan('C04', tier, plan(tier), ('C04.',), NEED, pre_cov=lambda run: pcommon.serial_sweep(run, ('C04.',)))

replay = pcommon.replay
