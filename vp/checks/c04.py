"""C04 - replies affect only the client instance they were asked about (DESIGN 5/C04).
State form: a stray reply (stale serial, malformed tag, unknown or not-awaited service) produces no output
and leaves the *unprojected* state dump (serials, counters included) unchanged, in every reachable state."""
from . import pcommon
NEED = ('stray-old', 'stray-malformed', 'stray-ghost', 'stray-notowed', 'reannounce-live', 'withdraw-while-owed')

def plan(tier):
    return pcommon.plan_solo(tier, which=('hurry',)) if tier == 'quick' else pcommon.plan_solo(tier)

def main(tier):
    return pcommon.run_plan('C04', tier, plan(tier), ('C04.',), NEED)

replay = pcommon.replay
