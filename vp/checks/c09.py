"""C09 - the server channel carries only well-formed, correctly addressed messages (DESIGN 5/C09).

1. every line of every transition of a closed protocol search passes an IAuth grammar validator written
   from ircu's readme.iauth, and every client message carries the announced id / address / port, the address
   being compared by an independent parser (Python ipaddress);
2. address abstraction: all 256 zero/non-zero patterns of the eight groups x digit widths {1,4}, IPv4,
   IPv4-mapped and IPv4-compatible forms, ports {0,1,65535}, each announced to the real daemon and the echoed
   address compared;
3. nothing else reaches the channel: the unmodified daemon (real main(), real verbosity handling) under a
   universe of logs{} sections x warning/error-producing events incl. failed and log-changing reloads."""
import ipaddress, itertools, json, os, signal, time
from concurrent.futures import ThreadPoolExecutor
from . import pcommon
from .. import common, build, e1, e3, proto, alpha, tpool

NEED = ('accept-D', 'accept-R', 'reject', 'reply-MORE', 'soft-done', 'reannounce-other-address')

def plan(tier):
    S = pcommon.S
    if tier == 'quick':
        return [S('solo/hurry/login+drone/t30', 'login+drone', 30, [2], alpha.scen_hurry([2], pbudget=1, alt_announce=True, replies=proto.REPLY_KINDS + ('OKT',)))]      # incl. the id re-announced from another address / port, an account followed by free text
    return [S('solo/hurry/%s/t30' % g, g, 30, [2], alpha.scen_hurry([2], alt_announce=True, replies=proto.REPLY_KINDS + ('OKT',))) for g in ('login+drone', 'ipr+comb', 'all4')] + \
           [S('pair/tiny/login+drone/t30', 'login+drone', 30, [1, 2], alpha.tiny([1, 2]))]

# ---- 2. addresses --------------------------------------------------------------------------------------
def address_universe(tier):
    out = []
    for pat in range(256):
        for width in (1, 4):
            groups = [(0x1 if width == 1 else 0xabcd) if pat & (1 << (7 - g)) else 0 for g in range(8)]
            out.append(groups)
    # mixed widths around the longest-run logic
    for groups in ([0, 0, 0xa, 0, 0xb, 0, 0, 0], [0x1, 0, 0, 0x22, 0, 0, 0, 0x333], [0, 0x1234, 0, 0, 0x5, 0, 0, 0], [0xffff] * 8, [0x1000] * 8):
        out.append(groups)
    addrs = []
    for g in out:
        a = ipaddress.IPv6Address(int(''.join('%04x' % x for x in g), 16))
        addrs.append(a)
    texts = []
    for a in addrs:
        t = str(a)
        if t.startswith(':'):
            t = '0' + t
        texts.append(t)
    v4 = ['1.2.3.4', '10.0.0.1', '255.255.255.255', '0.0.0.1', '127.0.0.1', '192.168.100.200']
    texts += v4
    texts += ['0::ffff:' + x for x in v4]          # IPv4-mapped
    texts += ['0::' + x for x in v4[:3]]            # IPv4-compatible
    texts += ['0::ffff:0:102', '0::1:102:304', '0::1', '0::']
    # the server may spell hexadecimal digits in upper case (and mixed), also in the IPv4-mapped prefix
    texts += [t.upper() for t in texts if any(c in 'abcdef' for c in t)][::7]
    texts += ['2001:DB8::A:B', 'FE80::1:2:3:4', '0::FFFF:192.0.2.77', 'AbCd:0:0:eF01::1', 'FFFF:FFFF:FFFF:FFFF:FFFF:FFFF:FFFF:FFFF']
    # spellings longer than the canonical text can ever be: six groups and a dotted quad, zero-padded groups
    texts += ['1111:2222:3333:4444:5555:6666:123.123.123.123', 'ffff:ffff:ffff:ffff:ffff:ffff:255.255.255.255', '0:0:0:0:0:ffff:123.123.123.123', '0:0:0:0:0:0:123.123.123.123',
              '0001:0002:0003:0004:0005:0006:0007:0008', '2001:0db8:0000:0000:0000:0000:0000:0001']
    return sorted(set(texts))

_W = {}

def _addr_job(server, item):
    k, text, port = item
    i = 7000 + k
    proto.CLIENTS[i] = dict(addr=text, port=port, laddr='10.9.9.9', lport=6667, host='h', ident='i', nick='n', user='u', real='r')
    w = _W.get('w')
    if w is None:
        w = _W['w'] = proto.World([], pcommon.rules_for([]), server.banner, 0)
    syms = [('C', i), ('H', i)]
    V, outs, status, err, done = tpool.run_symbolic(server, w, [i], syms)
    return {'text': text, 'port': port, 'V': [(t, x) for t, x, n in V if t.startswith('C09.')], 'status': status, 'outs': outs, 'err': err[-800:]}

def addresses(run, tier, b):
    conf = e1.conf_text(os.path.join(b, 'mods-wrapped'), services=[], timeout=0, rules=pcommon.rules_for([]))
    texts = address_universe(tier)
    items = [(n * 3 + m, t, p) for n, t in enumerate(texts) for m, p in enumerate((0, 1, 65535))]
    n = 0
    echoed = set()
    with tpool.TracePool(conf, b) as tp:
        for r in tp.imap(_addr_job, items, chunksize=8):
            if 'harness_error' in r:
                raise common.HarnessError(r['harness_error'])
            n += 1
            verdicts = [l for o in r['outs'] for l in o if l.startswith('D ')]
            if r['status'] == 'ok' and not verdicts and not r['V']:
                raise common.HarnessError('address %s was not accepted: %r' % (r['text'], r['outs']))
            for l in verdicts:
                echoed.add(l.split(' ')[2])
            for t, x in r['V']:
                run.violation(t, '[addresses] announced %s port %d: %s' % (r['text'], r['port'], x),
                              {'engine': 'E1-trace', 'conf': conf, 'lines': ['1 C %s %d 10.9.9.9 6667' % (r['text'], r['port']), '1 H'], 'outputs': r['outs']},
                              dedup='addr|' + t + '|' + r['text'])
    return {'addresses_announced': len(texts), 'address_port_cases': n, 'distinct_echoed_texts': len(echoed)}

# ---- 3. nothing else reaches the channel ------------------------------------------------------------------
SECTIONS = {
    'none': None,
    'all-to-file': ['"*.*" "file:all.log"'],
    'debug-up': ['"*.>=debug" "file:dbg.log"'],
    'iauth-only': ['"iauth.*" "file:iauth.log"', '"iauth_xquery.*" "file:iauth.log"'],
    'core-two-files': ['"core.<=info" ( "file:a.log", "file:b.log" )', '"config.*" "file:a.log"'],
    'stamped': ['verbose_timestamp "false"', '"*.>=warning" "file:warn.log"'],
}
MARKERS = ('Unrecognized info request', 'Unexpected XR reply', 'Ignoring OK', 'Expected a', 'Premature end', 'System error', 'Terminating due', 'Re-reading', 'Attaching', 'Releasing')

def one_logs_case(b, name, logs, reload_kind):
    conf = e3.plain_conf(b, services=pcommon.G['login+drone'], timeout=0, rules=pcommon.rules_for(pcommon.G['login+drone']), logs=logs)
    d = e3.Daemon(conf, b=b)
    d.wait_banner()
    d.write(b'-1 ? bogus\n1 C 10.0.0.1 1111 10.9.9.9 6667\n1 H\n-1 X drone.svc 1_1 :BLAH what\n-1 X drone.svc 1_1 :OK acct:1\n-1 ? config\n')
    d.wait_for(lambda o: b'\nD 1 ' in o, 20.0)
    if reload_kind == 'syntax-error':
        open(d.conf_path, 'w').write(conf + 'broken { "unterminated\n')
    elif reload_kind == 'unreadable':
        os.unlink(d.conf_path)
    elif reload_kind == 'logs-changed':
        conf2 = e3.plain_conf(b, services=pcommon.G['login+drone'], timeout=0, rules=pcommon.rules_for(pcommon.G['login+drone']), logs=['"*.*" "file:second.log"'])
        open(d.conf_path, 'w').write(conf2)
    if reload_kind != 'no-reload':
        d.signal(signal.SIGUSR1)
        # wait until the handler has run: where the section routes core.info to a file the daemon logs "Re-reading config file"
        # right before conf_read() (single-threaded: the reload then completes before any further input is read); elsewhere a pause
        probe = {'all-to-file': 'all.log', 'debug-up': 'dbg.log', 'core-two-files': 'a.log'}.get(name)
        t0 = time.time()
        while probe and time.time() - t0 < 20:
            try:
                if 'Re-reading config file' in open(os.path.join(d.dir, probe), errors='replace').read():
                    break
            except OSError:
                pass
            time.sleep(0.01)
        if not probe:
            time.sleep(0.4)
    d.write(b'-1 ? bogus2\n-1 ? stats\n')
    d.wait_for(lambda o: o.count(b'\ns\n') >= 1, 20.0)
    files = {}
    for f in os.listdir(d.dir):
        if f.endswith('.log'):
            files[f] = open(os.path.join(d.dir, f), errors='replace').read()
    rc, out, err = d.close()
    return name, reload_kind, rc, out, err, files, conf

def logs_universe(run, tier, b):
    cases = [(n, l, rk) for n, l in SECTIONS.items() for rk in ('no-reload', 'syntax-error', 'unreadable', 'logs-changed')]
    n = 0
    lines_checked = 0
    logged = 0
    with ThreadPoolExecutor(12) as ex:
        for name, rk, rc, out, err, files, conf in ex.map(lambda c: one_logs_case(b, *c), cases):
            n += 1
            start = next((k for k, l in enumerate(out) if l.startswith('V :')), None)
            if start is None:
                run.violation('C09.no-banner', '[logs/%s/%s] no version banner on the server channel: %r' % (name, rk, out[:5]), {'engine': 'E3', 'conf': conf, 'stdout': out, 'stderr': err[-1500:]})
                continue
            for l in out[start:]:
                lines_checked += 1
                p = proto.parse_line(l)
                if p.kind == 'bad' or any(m in l for m in MARKERS):
                    run.violation('C09.foreign-text', '[logs/%s/%s] the server channel received %r' % (name, rk, l),
                                  {'engine': 'E3', 'conf': conf, 'reload': rk, 'stdout': out, 'stderr': err[-1500:]}, dedup='logs|%s|%s' % (name, rk))
            if rc != 0 or 'ERROR:' in err:
                run.note('logs case %s/%s: daemon rc=%s (reported by C08/C10 if it is a crash)' % (name, rk, rc))
            alltext = '\n'.join(files.values())
            if name == 'all-to-file' and not run.violations and not run.capped:
                if 'Unrecognized info request' not in alltext or 'Unexpected XR reply' not in alltext:
                    raise common.HarnessError('vacuous: the warning-producing events did not produce log text in all.log: %r' % alltext[-500:])
                if rk == 'syntax-error' and 'Premature end' not in alltext and 'Expected a' not in alltext:
                    raise common.HarnessError('vacuous: the failed reload left no error in all.log: %r' % alltext[-800:])
            logged += sum(1 for m in MARKERS if m in alltext)
    return {'logs_cases': n, 'logs_stdout_lines_validated': lines_checked, 'logs_marker_texts_found_in_files': logged}

def long_relays(run, tier, b):
    """Relayed texts near and beyond the daemon's 1024-byte line buffer: whatever is written must still be single valid lines."""
    conf = e1.conf_text(os.path.join(b, 'mods-wrapped'), services=pcommon.G['login+drone'], timeout=0, rules=pcommon.rules_for(pcommon.G['login+drone']))
    n = 0
    with e1.Server(conf, builddir=b) as srv:
        for L in (900, 990, 1000, 1005, 1010, 1015, 1020, 1023, 1024, 1025, 1100, 2000, 3000):
            for kind in ('NO', 'AGAIN', 'MORE', 'OK'):
                lines = ['1 C 10.0.0.1 1111 10.9.9.9 6667', '1 H', '1 P :+x acct pass', '-1 X drone.svc 1_1 :OK', '-1 X login.svc 1_1 :%s %s' % (kind, 'T' * L), '-1 ? stats']
                res, status, err, ex = srv.trace([('L', l + '\n') for l in lines], 0)
                n += 1
                raw = b''.join(r.raw_out for r in res)
                for o in raw.split(b'\n'):
                    if not o:
                        continue
                    t = o.decode('latin-1')
                    p = proto.parse_line(common.mask_time(t))
                    if p.kind == 'bad' or len(o) > 1024:
                        run.violation('C09.malformed-line', '[long relay %s, %d characters] the server channel received %r... (%d bytes): %s' % (kind, L, t[:80], len(o), p.text if p.kind == 'bad' else 'longer than the line buffer'),
                                      {'engine': 'E1-trace', 'conf': conf, 'lines': lines}, dedup='longrelay|' + kind)
                if status != 'ok':
                    run.note('long relay %s/%d: daemon %s (reported by C08)' % (kind, L, status))
    return {'long_relay_traces': n}


def class_lengths(run, tier, b):
    """Class values and rule names at and around the 63-character limit: the verdict must stay a valid line carrying the announced address."""
    n = 0
    for L in (1, 62, 63, 64, 65, 100):
        for as_name in (False, True):
            rules = [('x' * L, {}) if as_name else ('r', {'class': 'c' * L})]
            conf = e1.conf_text(os.path.join(b, 'mods-wrapped'), services=[], timeout=0, rules=rules)
            with e1.Server(conf, builddir=b) as srv:
                lines = ['5 C 10.1.2.3 40000 10.9.9.9 6667', '5 H']
                res, status, err, ex = srv.trace([('L', l + '\n') for l in lines], 0)
                n += 1
                for r in res:
                    for o in r.out:
                        p = proto.parse_line(o)
                        ok = p.kind != 'bad' and (p.kind != 'client' or (p.id == 5 and p.port == 40000 and proto.same_address(p.ip, '10.1.2.3')))
                        if not ok:
                            run.violation('C09.wrong-address' if p.kind == 'client' else 'C09.malformed-line', '[class %s of %d characters] the daemon wrote %r for the client announced as 10.1.2.3 40000'
                                          % ('name' if as_name else 'value', L, o[:120]), {'engine': 'E1-trace', 'conf': conf, 'lines': lines}, dedup='classlen|%s' % as_name)
    return {'class_length_traces': n}


def main(tier):
    def extra(run):
        b = build.build()
        c = addresses(run, tier, b)
        c.update(class_lengths(run, tier, b))
        c.update(logs_universe(run, tier, b))
        c.update(long_relays(run, tier, b))
        return c
    return pcommon.run_plan('C09', tier, plan(tier), ('C09.',), NEED, extra_cov=extra)

def replay(obj):
    r = obj['replay']
    if r.get('engine') == 'E1':
        return pcommon.replay(obj)
    b = build.build()
    if r.get('engine') == 'E1-trace':
        with e1.Server(r['conf'], builddir=b) as srv:
            res, status, err, ex = srv.trace([('L', (l + '\n')) for l in r['lines']], 0)
            bad = 0
            announced = r['lines'][0].split(' ')[2]
            for l, x in zip(r['lines'], res):
                print(l, '->', x.out)
                for o in x.out:
                    p = proto.parse_line(o)
                    if p.kind == 'client' and not proto.same_address(p.ip, announced[1:] if announced.startswith('0::') else announced):
                        print('!! echoed address', p.ip, 'does not denote', announced); bad = 1
        return bad
    print(json.dumps(r, indent=1)[:3000])
    return 1
