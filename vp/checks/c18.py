"""C18 - log routing follows the logs section (DESIGN 5/C18).

Engine E2 "conf"/log: a logs{} section is loaded by the real conf_read() (so the real hooks rebuild the routing),
then one uniquely tagged message is emitted through the real log_message() for every facility of {f1, f2, f3} and
every severity (fatal in a sub-fork, it terminates the process) and the destination files are read back.
  sections   every set of <= 2 entries over facility {f1, f2, *} x 16 severity expressions (names, lists, ranges,
             '*', and four invalid forms) x destinations {file:A, file:B, (file:A, file:B)}
  reloads    every ordered pair (thorough: triple) of sections of a sub-universe; messages are emitted after the
             last reload - the routing must be that of the last section only; one entry edited in place through
             every pair / triple of destination values (single, one-item list, list, empty list, missing)
Oracle: reference router written from the statement; every line of every file must have the documented shape and
carry the facility and severity of the message whose tag it shows.
"""
import itertools, re
from .. import common, build, conf as C

SEV = ['debug', 'command', 'info', 'warning', 'error', 'fatal']
FACS = ['f1', 'f2', 'f3']
EXPRS = ['info', 'info,error', '>=warning', '>info', '<=command', '<info', '=error', '*', 'debug,>=error', '>=error,debug', '<command,error', '>warning,=debug,info',
         'foo', '>=foo', 'info,foo', None]   # None: key without a dot
DESTS = [('A',), ('B',), ('A', 'B'), ('=A',)]       # '=A': the single destination written as a one-item list ( "file:A" )
LINE = re.compile(r'^\[\d\d:\d\d:\d\d \d\d/\d\d/\d{4}\] \(([^:()]+):([a-z]+)\) (.*)$')


def sevset(expr):
    """Reference for the severity-set syntax, from the statement: names, comma lists, <, <=, =, >=, > ranges, *.  None = invalid."""
    if expr == '*':
        return set(range(6))
    out = set()
    for part in expr.split(','):
        op = ''
        for o in ('>=', '<=', '>', '<', '='):
            if part.startswith(o):
                op = o; part = part[len(o):]
                break
        if part not in SEV:
            return None
        i = SEV.index(part)
        out |= {'': {i}, '=': {i}, '>=': set(range(i, 6)), '>': set(range(i + 1, 6)), '<=': set(range(0, i + 1)), '<': set(range(0, i))}[op]
    return out


def entries():
    es = []
    for fac in ('f1', 'f2', '*'):
        for ex in EXPRS:
            for d in DESTS:
                es.append((fac, ex, d))
    return es


def key_of(e):
    fac, ex, d = e
    return ('%s.%s' % (fac, ex)) if ex is not None else fac + 'nodot'


NOSECTION = 'no-logs-section'

LONGPFX = 'x' * 200 + '/' + 'y' * 60
PATHS = {'LA': LONGPFX + 'A', 'LB': LONGPFX + 'B', 'FULL': '/dev/full'}      # FULL: every write fails (nothing can be read back from it, so nothing is expected of it)


def fname(x):
    x = x.lstrip('=')
    return PATHS.get(x, x)


def section_text(sec):
    if sec == NOSECTION:
        return b'unrelated "setting"\n'      # a file without any logs section: every routing entry is gone
    o = ['logs {']
    for e in sec:
        fac, ex, d = e
        val = '"file:%s"' % fname(d[0]) if (len(d) == 1 and not d[0].startswith('=')) else '( %s )' % ', '.join('"file:%s"' % fname(x) for x in d)
        o.append('  "%s" %s' % (key_of(e), val))
    o.append('}')
    return ('\n'.join(o) + '\n').encode()


def route(sec):
    """-> {(fac, sev index): set of files}"""
    r = {}
    if sec == NOSECTION:
        return r
    for fac, ex, d in sec:
        if ex is None:
            continue
        ss = sevset(ex)
        if ss is None:
            continue
        for f in FACS:
            if fac == '*' or fac == f:
                for s in ss:
                    r.setdefault((f, s), set()).update(x.lstrip('=') for x in d if x.lstrip('=') != 'FULL')
    return r


def judge(seq, emit, tag):
    """-> list of (class, text)"""
    V = []
    want = route(seq[-1])
    got = {}
    for fname in ('A', 'B', 'C', 'a', 'LA', 'LB'):
        content = emit.get(fname)
        if content is None:
            continue
        if content and not content.endswith('\n'):
            V.append(('C18.incomplete-line', 'file %s does not end with a newline: %r' % (fname, content[-80:])))
        for line in content.split('\n'):
            if not line:
                continue
            m = LINE.match(line)
            if not m:
                V.append(('C18.malformed-line', 'file %s holds a line of unknown shape: %r' % (fname, line[:120])))
                continue
            fac, sev, text = m.groups()
            mtag = tag
            if '\n' in tag:
                # a message with a line break inside: however the writer neutralises it (a blank, an escape), the text stays ONE attributed line
                a, z = tag.split('\n', 1)
                mm = re.match(re.escape(a) + r'.{1,4}?' + re.escape(z) + '-', text)
                mtag = text[:mm.end() - 1] if mm else tag
            if text.startswith(mtag + '-'):
                parts = text[len(mtag) - len(mtag.split('-')[0]):].split('-') if False else [mtag] + text[len(mtag) + 1:].split('-')
                if len(parts) == 4 and set(parts[3]) <= {'x'}:
                    parts = parts[:3]           # filler of a long message (possibly cut by the 1024-byte message buffer)
                if len(parts) != 3 or parts[1] != fac or parts[2] != sev:
                    V.append(('C18.misattributed', 'file %s: message %r is attributed to (%s:%s)' % (fname, text, fac, sev)))
                    continue
                got.setdefault((fac, SEV.index(sev)), set()).add(fname)
    for f in FACS:
        for s in range(6):
            w, g = want.get((f, s), set()), got.get((f, s), set())
            if g - w:
                V.append(('C18.unexpected-destination', 'a %s.%s message was written to %s but the section maps it to %s' % (f, SEV[s], sorted(g - w), sorted(w) or 'nothing')))
            if w - g:
                V.append(('C18.missing-destination', 'a %s.%s message is missing from %s (section maps it to %s, written to %s)' % (f, SEV[s], sorted(w - g), sorted(w), sorted(g) or 'nothing')))
    for k in ('fatal_f1', 'fatal_f2', 'fatal_f3'):
        if k in emit:
            V.append(('C18.fatal-exit', 'a fatal message ended the process with status %s instead of exit(1)' % emit[k]))
    return V


def _task(srv, item):
    cid, seq = item
    hist = [C.load(section_text(s)) for s in seq]
    tag = 'T%d' % cid
    if cid % 97 == 5:
        tag += '+%d' % (900, 980, 990, 1000, 1010, 1023, 1100)[cid // 97 % 7]     # a sample of the sections gets long messages
    elif cid % 97 == 11:
        tag += '\n[00:00:00 01/01/2030] (f2:fatal) forged'       # ... and a sample gets messages with a line break and a counterfeit header inside
    h, res = srv.expand(hist, [('M', tag)], hist_may_die=True)
    if h.get('died'):
        # every section of the universe is a valid file: the library dying while loading them is not a harness matter
        return (cid, [('C18.died', 'process %s while loading the sections: %s' % (h['died'], [l for l in (h.get('stderr') or '').splitlines() if 'ERROR' in l or 'SUMMARY' in l][:2]))], [0], 0)
    r = res[0]
    if r.get('status') != 'ok' or 'emit' not in r:
        return (cid, [('C18.died', 'process %s while emitting: %s' % (r.get('status'), (r.get('stderr') or '').strip().splitlines()[-1:]))], h['rcs'], 0)
    V = judge(seq, r['emit'], tag)
    nlines = sum(len([l for l in (r['emit'].get(f) or '').split('\n') if l]) for f in ('A', 'B', 'C', 'a', 'LA', 'LB'))
    return (cid, V, h['rcs'], nlines)


def sec_str(s):
    if s == NOSECTION:
        return '<file without logs section>'
    return '{' + '; '.join('"%s" -> %s' % (key_of(e), '+'.join(x.lstrip('=') for x in e[2])) for e in s) + '}'


def main(tier):
    run = common.Run('C18', 'model_checking', tier)
    try:
        b = build.build()
    except RuntimeError as e:
        raise common.HarnessError(str(e))
    quick = run.tier == 'quick'
    E = entries()
    singles = [(e,) for e in E]
    pairs = [p for p in itertools.combinations(E, 2) if key_of(p[0]) != key_of(p[1])]
    sections = [()] + singles + pairs
    if not quick:
        sub = [e for e in E if e[1] in ('info', '>=warning', '<info', '*', 'foo', 'debug,>=error') and e[2] != ('B',)]
        sections += [t for t in itertools.combinations(sub, 3) if len({key_of(x) for x in t}) == 3]
    seqs = [(s,) for s in sections]
    # reload sequences
    base = [(), NOSECTION, (('f1', 'info', ('=A',)),), (('f1', 'info', ('A', 'B', 'C')),), (('f1', 'info', ('A',)),), (('f1', 'info', ('B',)),), (('f1', 'info', ('A', 'B')),), (('f1', '>=warning', ('A',)),), (('*', '*', ('B',)),),
            (('*', '>=error', ('A',)),), (('f2', '<=command', ('B',)),), (('f1', 'foo', ('A',)),), (('f2', None, ('A',)),),
            (('f1', 'info', ('A',)), ('*', '>=warning', ('B',))), (('f1', '*', ('A',)), ('f2', '*', ('B',))), (('*', 'debug,>=error', ('A', 'B')),),
            (('f1', '<info', ('A',)), ('f1', '>info', ('B',))), (('f2', '=error', ('A',)), ('*', 'info,error', ('A',)))]
    base += [(e,) for e in E[::9]][:15]
    base += [(('f1', 'info', ('a',)),), (('f1', 'info', ('A',)), ('f2', '*', ('a',))), (('f1', '*', ('a',)), ('f2', '*', ('A',)))]
    # names that agree in their first 255 characters; a destination on which every write fails, next to healthy ones
    base += [(('f1', '*', ('LA',)), ('f2', '*', ('LB',))), (('f1', 'info', ('LB',)),), (('f1', '*', ('FULL',)), ('f2', '*', ('A',)), ('f3', '*', ('FULL', 'B'))), (('*', '*', ('FULL', 'A')),)]
    nsingle = len(seqs)
    seqs += [(a, c) for a in base for c in base]
    # entries added by one load and dropped by the next (the dropped one sorting first or last), also after an unchanged reload in between
    sub8 = [e for e in E if e[1] in ('info', '>=warning', '*', '<=command') and e[2] in (('A',), ('B',))][:8]
    for x, y in itertools.combinations(sub8, 2):
        if key_of(x) == key_of(y):
            continue
        two = (x, y)
        for keep in ((x,), (y,)):
            seqs.append((two, keep))
            seqs.append((keep, keep, two, keep))
    # one entry edited in place: every ordered pair (also after an unchanged reload) and every triple of values of one key - a single destination, a
    # one-item list, a two-item list, the empty list ( ), or the entry missing - alone or beside an entry that never changes
    DV = [('A',), ('B',), ('=A',), ('A', 'B'), (), None, ('a',), ('A', 'a')]      # 'a': a file whose name differs from 'A' in letter case only
    for fac, ex in (('f1', 'info'), ('*', '>=warning')):
        for ctx in ((), (('f2', '*', ('B',)),)):
            mk = lambda d: ctx + (((fac, ex, d),) if d is not None else ())
            for d1, d2 in itertools.product(DV, repeat=2):
                if d1 != d2:
                    seqs.append((mk(d1), mk(d2)))
                    seqs.append((mk(d1), mk(d1), mk(d2)))
            if (fac, bool(ctx)) == ('f1', True) or not quick:
                for d1, d2, d3 in itertools.product(DV, repeat=3):
                    if d1 != d2 and d2 != d3:
                        seqs.append((mk(d1), mk(d2), mk(d3)))
    npair = len(seqs) - nsingle
    if not quick:
        small = base[:12]
        seqs += [(a, c, d) for a in small for c in small for d in small]
    ntriple = len(seqs) - nsingle - npair
    items = list(enumerate(seqs))
    nlines = 0
    routed = 0
    with C.Pool(b, 16) as pool:
        for res in pool.imap(_task, items, chunksize=8):
            if isinstance(res, dict):
                raise common.HarnessError(res['harness_error'])
            if run.out_of_time(15):
                run.cap('deadline: not every section sequence was run')
                break
            cid, V, rcs, nl = res
            nlines += nl
            seq = seqs[cid]
            if any(rc != 0 for rc in rcs):
                raise common.HarnessError('a generated logs section was rejected by the config parser: %r' % (section_text(seq[-1]),))
            routed += len(route(seq[-1]))
            for cls, text in V:
                run.violation(cls, '%s  (sections loaded in order: %s)' % (text, ' | '.join(sec_str(s) for s in seq)),
                              {'engine': 'conf', 'sections': [section_text(s).decode() for s in seq], 'clause': cls}, dedup=cls + '|' + text.split(' (')[0][:50] + '|' + str(len(seq)))
    if nlines < 1000 and not run.violations and not run.capped:
        raise common.HarnessError('vacuous: only %d log lines were read back' % nlines)
    cov = {'states': len(seqs), 'transitions': sum(len(s) for s in seqs) + 18 * len(seqs), 'traces_validated_against_impl': len(seqs),
           'samples': [[section_text(s).decode() for s in seqs[i]] for i in (1, nsingle // 2, nsingle + 7, len(seqs) - 1)],
           'exhaustive': not run.capped, 'single_sections': nsingle, 'reload_pairs': npair, 'reload_triples': ntriple, 'log_lines_read_back': nlines,
           'routed_facility_severity_pairs': routed, 'entries_universe': len(E), 'severity_expressions': [str(e) for e in EXPRS],
           'explanation': 'a state is the routing reached by a sequence of section loads (every sequence of the listed universe is replayed on the real log.c/config.c); transitions = section '
                          'loads + the 18 (facility, severity) messages emitted from every reached routing; every sequence is an execution of the implementation, so all are traces validated '
                          'against it; the oracle is a reference router written from the statement'}
    return run.finish(cov, assumptions=['destinations are file: targets in the scratch directory (an unknown destination type makes log.c terminate the process by design)',
                                        'multiplicity of a message in a destination is not judged (the statement says "written to")'])


def replay(obj):
    r = obj['replay']
    b = build.build()
    with C.Server(b) as s:
        h, res = s.expand([C.load(t.encode()) for t in r['sections']], [('M', 'T0')])
    print(res[0].get('emit'))
    print(obj['what'])
    return 1
