"""C11 - class rules: the first matching rule in name order decides (DESIGN 5/C11).

Engine E1: every rule table is a fresh start of the real daemon (real config load, real rule compilation); every
client attribute vector is one forked trace through the real handlers ending in the verdict line.
  rules    every subset of the five criteria (account glob, address mask, username glob, hostname glob, xreply_ok)
           x class value {absent, given} x trust_username {off, on}   = 128 rules
  tables   quick: every single rule; every ordered pair of the 24 rules with <= 1 criterion under both name
           assignments (a1, B2) and (B2, a1) - ASCII order and case-insensitive order disagree on these names;
           thorough: every ordered pair of all 128 rules under both assignments; every triple of the 12 rules with
           <= 1 criterion and no trust_username; tables with non-rule children
  clients  account {none, oper, oper:9, user:9} x address {inside, outside} x ident {joe, ~joe, none} x
           host {match, other, none} x service {answers OK, unlinked, silent until the request timer fires}, plus a '~'-prefixed
           claimed user name for ~joe; every client is classified alone AND as one of a sequence in a single daemon
Oracle: Python reference written from the module's header comment and the statement (proto.class_reference).
"""
import itertools, multiprocessing as mp, os, traceback
from .. import common, build, e1, proto

SERVICES = [('login.svc', 'login'), ('drone.svc', 'dronecheck')]
CRIT = {'account': 'op?r*', 'address': '10.1.0.0/16', 'username': 'jo[a-e]', 'hostname': '*.match.example', 'xreply_ok': 'drone.svc'}
CORDER = ['account', 'address', 'username', 'hostname', 'xreply_ok']


def all_rules():
    rs = []
    for mask in range(32):
        for cls in (None, 'k'):
            for trust in (False, True):
                kv = {}
                for i, c in enumerate(CORDER):
                    if mask >> i & 1:
                        kv[c] = CRIT[c]
                if cls:
                    kv['class'] = cls
                if trust:
                    kv['trust_username'] = 'yes'
                rs.append(kv)
    return rs


def clients():
    cs = []
    for acct, inside, ident, host, ok in itertools.product((None, 'oper', 'oper:9', 'user:9'), (True, False), ('joe', '~joe', None), ('m', 'o', None), (True, False, 'timeout', 'text')):      # 'text': the dronecheck service says OK and adds words - still an OK
        claimed = ['claimed'] + (['~tilde', None] if ident == '~joe' else [])      # None: hurried before any U line - there is no client-supplied name to upgrade to
        for cl in claimed:
            cs.append(dict(account=acct, addr='10.1.2.3' if inside else '10.2.2.3', ident=ident, host={'m': 'h.match.example', 'o': 'h.other.example', None: None}[host], ok=ok, claimed=cl))
    return cs


def client_events(c, cid=1, serial=1):
    """The client's conversation as E1 events; the service either answers OK, is reported unlinked, or stays silent until the
    request timer fires (accept forced by the timeout with the query unanswered)."""
    tag = '%x_%x' % (cid, serial)
    L = ['%d C %s 1111 10.9.9.9 6667' % (cid, c['addr'])]
    L.append('%d N %s' % (cid, c['host']) if c['host'] else '%d d' % cid)
    if c['ident']:
        L.append('%d u %s' % (cid, c['ident']))
    L.append('%d n Nick' % cid)
    if c['claimed'] is not None:
        L.append('%d U %s :Real Name' % (cid, c['claimed']))
    if c['account']:
        L.append('%d P :-! %s secret' % (cid, c['account'].split(':')[0]))
    L.append('%d H' % cid)
    if c['account']:
        L.append('-1 X login.svc %s :OK %s' % (tag, c['account']))
    ev = [('L', l + '\n') for l in L]
    if c['ok'] == 'timeout':
        ev.append(('T', cid))
    else:
        ev.append(('L', ('-1 X drone.svc %s :OK clean (score 0)\n' if c['ok'] == 'text' else '-1 X drone.svc %s :OK\n' if c['ok'] else '-1 x drone.svc %s :Server not online\n') % tag))
    return ev


def client_lines(c):
    return [e[1].strip() if e[0] == 'L' else '<request timeout fires>' for e in client_events(c)]


def expect(table, c):
    attrs = dict(account=c['account'], addr=c['addr'], ident=c['ident'], host=c['host'], ok_services={'drone.svc'} if c['ok'] in (True, 'text') else set())
    if c['account']:
        attrs['ok_services'] = set(attrs['ok_services']) | {'login.svc'}
    cls, trust = proto.class_reference(table, attrs)
    upgrade = None
    if cls is not None and trust and c['ident'] and c['ident'].startswith('~') and c['claimed'] is not None:
        upgrade = c['claimed'][1:] if c['claimed'].startswith('~') else c['claimed']
    return cls, upgrade


_G = {}


def _table(tab):
    """tab = (table id, [(name, kv)], extra config text) -> (id, nclients, [(class, text, client lines)])"""
    tid, table, extra, full = tab
    try:
        b = _G['b']
        conf = e1.conf_text(os.path.join(b, 'mods-wrapped'), services=SERVICES, timeout=30, rules=table)
        if extra:
            conf = conf.replace('iauth_class {\n', 'iauth_class {\n' + extra, 1)
        srv = e1.Server(conf, builddir=b)
    except Exception:
        return (tid, 0, [('harness', traceback.format_exc(), [])])
    V = []
    n = 0
    try:
        cl = (_G['clients'] if full else _G['core_clients'])
        # pass 1: every client alone in a fresh fork;  pass 2: all of them one after another in ONE daemon (a client's class
        # must not depend on the clients classified before it)
        seq_outs = []
        # forward and reverse (every kind of client also follows every other kind at some distance), and "siblings": every client directly after the one
        # that differs from it in ONE attribute only - the address, the account, the host - so that whatever a rule scan remembers about the previous client
        # meets the client most like it
        def sib(*slow):
            return sorted(range(len(cl)), key=lambda k: tuple(str(cl[k][a]) for a in slow))
        orders = [list(range(len(cl))), list(range(len(cl) - 1, -1, -1)),
                  sib('account', 'ident', 'host', 'ok', 'claimed', 'addr')[::-1], sib('addr', 'ident', 'host', 'ok', 'claimed', 'account'), sib('account', 'addr', 'ident', 'ok', 'claimed', 'host')]
        for order in orders:
            seq_events = []
            for pos, k in enumerate(order):
                seq_events += client_events(cl[k], 100 + k, pos + 1)
            res, status, err, ex = srv.trace(seq_events)
            so = [l for r in res for l in r.out]
            if status != 'ok' or len(res) != len(seq_events):
                V.append(('C11.died', 'the daemon ended with %s while classifying %d clients in sequence: %s' % (status, len(cl), (err.strip().splitlines() or ['?'])[0][:160]), []))
                so = None
            seq_outs.append(so)
        for k, c in enumerate(cl):
          for cid, out, mode in [(1, None, 'alone'), (100 + k, seq_outs[0], 'as number %d of all clients in sequence' % (k + 1)), (100 + k, seq_outs[1], 'as number %d of all clients in reverse sequence' % (len(cl) - k))] + \
                                [(100 + k, seq_outs[n], 'in sibling order %d, right after the client that differs in one attribute' % (n - 1)) for n in (2, 3, 4)]:
            lines = client_lines(c)
            if out is None and mode != 'alone':
                continue
            if mode == 'alone':
                evs = client_events(c)
                res, status, err, ex = srv.trace(evs)
                out = [l for r in res for l in r.out]
                if status != 'ok' or len(res) != len(evs):
                    V.append(('C11.died', 'the daemon ended with %s: %s' % (status, (err.strip().splitlines() or ['?'])[0][:160]), lines))
                    continue
            n += 1
            lines = lines + ['(%s)' % mode]
            if mode != 'alone':
                out = [l for l in out if (' %d ' % cid) in l[:8]]
            verdict = [l for l in out if l[:2] in ('D ', 'R ') and l.split()[1] == str(cid)]
            ups = [l for l in out if l.startswith('U %d ' % cid)]
            wcls, wup = expect(table, c)
            if len(verdict) != 1:
                V.append(('C11.no-verdict', 'expected exactly one accept line, got %r' % (out,), lines))
                continue
            f = verdict[0].split()
            if c['account']:
                good = f[0] == 'R' and len(f) >= 5 and f[4] == c['account']
                gcls = f[5] if len(f) > 5 else None
            else:
                good = f[0] == 'D'
                gcls = f[4] if len(f) > 4 else None
            if not good:
                V.append(('C11.verdict-shape', 'unexpected accept line %r' % verdict[0], lines))
                continue
            if gcls != wcls:
                V.append(('C11.wrong-class', 'class %r assigned, the first matching rule in name order gives %r (line %r)' % (gcls, wcls, verdict[0]), lines))
            gup = [l.split()[4] for l in ups if len(l.split()) > 4]
            if (wup is None and ups) or (wup is not None and (gup != [wup] or len(ups) != 1)):
                V.append(('C11.trust-username', 'user name upgrade lines %r, expected %r' % (ups, wup), lines))
            elif wup is not None and out.index(ups[0]) > out.index(verdict[0]):
                V.append(('C11.trust-username', 'the user name upgrade came after the verdict: %r' % (out,), lines))
    finally:
        srv.close()
    return (tid, n, V)


def tstr(table):
    return '; '.join('%s {%s}' % (n, ', '.join('%s %s' % kv for kv in sorted(r.items()))) for n, r in table)


def main(tier):
    run = common.Run('C11', 'exploration', tier)
    try:
        b = build.build()
    except RuntimeError as e:
        raise common.HarnessError(str(e))
    quick = run.tier == 'quick'
    R = all_rules()
    small = [r for r in R if sum(1 for c in CORDER if c in r) <= 1]
    tables = []
    # (rules, extra config text, full client set?)  - pairs of many-criteria rules use the 32 core clients (one per truth assignment of the criteria)
    for r in R:
        tables.append(([('r1', r)], '', True))
    for x, y in itertools.product(small, repeat=2):
        tables.append(([('a1', x), ('B2', y)], '', not quick))
        tables.append(([('B2', x), ('a1', y)], '', not quick))
    if not quick:
        for x, y in itertools.product(R, repeat=2):
            if x in small and y in small:
                continue
            tables.append(([('a1', x), ('B2', y)], '', False))
            tables.append(([('B2', x), ('a1', y)], '', False))
        tiny = [r for r in small if 'trust_username' not in r]
        for x, y, z in itertools.product(tiny, repeat=3):
            tables.append(([('b2', x), ('A1', y), ('C3', z)], '', False))
    # hostname globs that the address TEXT would satisfy: a client the server reports as having no host name (`d`) has none, it must not match them
    for pat in ('*.*', '?*', '1*', '*:*', '[0-9]*'):
        tables.append(([('r1', {'hostname': pat, 'class': 'byname'}), ('r2', {'class': 'rest'})], '', True))
        tables.append(([('r1', {'hostname': pat, 'trust_username': 'yes'})], '', True))
    # non-rule children must be skipped, whatever their name
    for r in (R[0], R[5], R[127]):
        tables.append(([('m5', r)], '  dummy "bogus line"\n  "a0" "not a rule"\n  zz ( "a", "list" )\n', True))
        tables.append(([('a1', R[3]), ('m5', r)], '  "a0" "not a rule"\n', True))
    _G['b'] = b
    _G['clients'] = clients()
    _G['core_clients'] = [c for c in _G['clients'] if c['account'] in ('oper:9', 'user:9') and c['ident'] in ('joe', '~joe') and c['host'] and c['claimed'] == 'claimed']
    nclients = 0
    ntab = 0
    nclass = set()
    items = [(i, t, x, f) for i, (t, x, f) in enumerate(tables)]
    with mp.get_context('fork').Pool(16) as pool:
        for tid, n, V in pool.imap_unordered(_table, items, chunksize=2):
            ntab += 1
            nclients += n
            table = tables[tid][0]
            for cls, text, lines in V:
                if cls == 'harness':
                    raise common.HarnessError(text)
                run.violation(cls, '%s  [rules: %s; client: %s]' % (text, tstr(table), ' | '.join(lines)),
                              {'engine': 'E1 trace', 'rules': [[n_, kv] for n_, kv in table], 'extra': tables[tid][1], 'lines': lines}, dedup=cls + '|' + str(len(table)) + '|' + text[:40])
            if run.too_many(40) or run.out_of_time(20):
                if run.out_of_time(20):
                    run.cap('deadline after %d of %d tables' % (ntab, len(tables)))
                pool.terminate()
                break
    if nclients < 10000 and not run.violations and not run.capped:
        raise common.HarnessError('vacuous: %d client traces' % nclients)
    # the "OK from a named service" criterion under a service table that changes while the client waits (breadth-first over reload points):
    # an OK the client got from a service that has left must not satisfy a rule that names the service which took its place
    from . import pcommon
    rs = pcommon.extra_search(run, pcommon.reload_search(tier, 'slot'), ('C05.wrong-class',), retag='C11.class-after-reload') if not run.out_of_time(60) else None
    cov = {'evaluations': nclients, 'distinct_nontrivial': nclients,
           'rule': 'one evaluation = one (rule table, client attribute vector) pair run through the real daemon started on that table; all pairs are distinct; every one reaches the rule scan '
                   '(the client is accepted and the class field of its verdict is compared with the reference)',
           'samples': [tstr(tables[i][0]) for i in (0, 77, len(tables) // 2, len(tables) - 1)] + [' | '.join(client_lines(_G['clients'][i])) for i in (0, 100)],
           'exhaustive': not run.capped, 'tables': ntab, 'clients_per_table': '%d (full) or %d (one per truth assignment of the five criteria)' % (len(_G['clients']), len(_G['core_clients'])), 'rules_in_universe': len(R), 'reload_search': rs}
    return run.finish(cov, assumptions=['criterion values are fixed per criterion (the client attributes decide the match); mask syntax variety is C13\'s',
                                        'glob semantics are those of libc fnmatch without flags; the reference uses Python fnmatchcase on patterns made of literals, ?, * and one bracket set'])


def replay(obj):
    r = obj['replay']
    if r.get('engine') == 'E1':
        from . import pcommon
        return pcommon.replay(obj)
    b = build.build()
    _G['b'] = b
    table = [(n, kv) for n, kv in r['rules']]
    conf = e1.conf_text(os.path.join(b, 'mods-wrapped'), services=SERVICES, timeout=30, rules=table)
    if r.get('extra'):
        conf = conf.replace('iauth_class {\n', 'iauth_class {\n' + r['extra'], 1)
    with e1.Server(conf, builddir=b) as srv:
        lines = [l for l in r['lines'] if not l.startswith('(')]
        res, status, err, ex = srv.trace([('L', l + '\n') if not l.startswith('<') else ('T', 1) for l in lines])
        for l, x in zip(lines, res):
            print('%-50s -> %r' % (l, x.out))
        print(status, err[-500:])
    print(obj['what'])
    return 1
