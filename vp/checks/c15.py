"""C15 - reload is deterministic: last good file plus defaults (DESIGN 5/C15).

Explicit-state search over the real config.c (engine E2 "conf"): states are complete dumps of the live tree, events
are load(F) for every file F of a universe (product of per-name choices over all four node kinds and nested objects)
and register(r) for every registration of a menu, at any point of the history.  The search runs to a fixpoint, so
load/registration sequences of every length over the universe are covered.  On every transition:
  O1 reference   every registered node holds the file's value for its (name, kind) or else its default; the
                 unregistered nodes are exactly the file's nodes not matched by a registration (Python model written
                 from the statement)
  O2 history independence   the dump equals that of a fresh process doing the registrations then load(F), and of one
                 doing load(F) then the registrations
  O3 idempotence loading the same bytes again changes nothing and runs no hook
  O4 hooks       a registered node whose effective value changed had its hook run; a registered object (and the
                 root) whose membership changed had its hook run
  O5 memory      ASan on every transition (values moved between the scratch and the live tree)
"""
import hashlib, itertools, json
from .. import common, build, conf as C

ROOT = ('G', 'r')
HOOK_UNREG = ('G', 'u')      # unregistered entries get a hook after every load, as the modules do for the entries of their sections
REGS = {
    'a:str=d': (C.reg_string('a', 'd'), [('a', 's', 'd', 0)]),
    'a:str=NULL': (C.reg_string('a', None), [('a', 's', None, 0)]),
    'a:int=5': (C.reg_string('a', '5', 2), [('a', 's', '5', 2)]),
    'a:list=(d)': (C.reg_list('a', 'd'), [('a', 'l', ('d',), 0)]),
    'h:pair': (C.reg_inaddr('h', 'dh', 'ds'), [('h', 'i', ('dh', 'ds'), 0)]),
    'o:obj': (C.reg_object('o'), [('o', 'o', None, 0)]),
    'o/x:str=d': (C.reg_string('o/x', 'd'), [('o', 'o', None, 0), ('o/x', 's', 'd', 0)]),
}
EXCL = [{'a:str=d', 'a:str=NULL', 'a:int=5'}]
REG_ORDER = list(REGS)

A_CHOICES = [None, [('a', 's', '1')], [('a', 's', '2')], [('a', 'l', ('u',))], [('a', 'l', ('u', 'v'))], [('a', 'l', ())], [('a', 's', '1'), ('a', 'l', ('u',))]]
H_CHOICES = [None, [('h', 'i', ('h1', 's1'))], [('h', 'i', ('h2', 's1'))]]
O_CHOICES = [None, [('o', 'o', [])], [('o', 'o', [('x', 's', '1')])], [('o', 'o', [('x', 's', '2'), ('p', 'o', [('z', 's', '1')])])],
             [('o', 'o', [('x', 's', 'Vv')])], [('o', 'o', [('x', 's', 'vV')])]]        # the last two differ in letter case only


def render(entries, ind=''):
    o = []
    for n, k, v in entries:
        if k == 's':
            o.append('%s%s "%s"' % (ind, n, v))
        elif k == 'l':
            o.append('%s%s (%s)' % (ind, n, ', '.join('"%s"' % x for x in v)))
        elif k == 'i':
            o.append('%s%s "%s" "%s"' % (ind, n, v[0], v[1]))
        else:
            o.append('%s%s {' % (ind, n))
            o += render(v, ind + '  ')
            o.append('%s}' % ind)
    return o


def file_nodes(entries, prefix=''):
    d = {}
    for n, k, v in entries:
        p = prefix + n
        if k == 'o':
            d[(p, 'o')] = None
            d.update(file_nodes(v, p + '/'))
        else:
            d[(p, k)] = v
    return d


def universe(quick):
    A = A_CHOICES if not quick else A_CHOICES[:3] + A_CHOICES[4:6]
    H = H_CHOICES if not quick else H_CHOICES[:2]
    O = O_CHOICES if not quick else [O_CHOICES[0], O_CHOICES[2], O_CHOICES[3], O_CHOICES[4], O_CHOICES[5]]
    files = []
    for a, h, o in itertools.product(A, H, O):
        ent = (a or []) + (h or []) + (o or [])
        if not ent:
            continue       # an empty file is not in the documented grammar (and fread() of 0 bytes is reported as an error)
        files.append((ent, ('\n'.join(render(ent)) + '\n').encode()))
    return files


def flatten(dump, prefix='', out=None):
    """dump of an object node -> {(path, kind): {'sp','pr','v','hk'}}; the logs subtree (owned by log.c) is skipped."""
    if out is None:
        out = {}
    for c in dump.get('c', []):
        if 'n' not in c:
            # structural alarm raised by the dumper itself (child with a foreign parent pointer, child list that does not end)
            out[(prefix + ' '.join(sorted(c)), '!')] = {'sp': 0, 'pr': 0, 'v': 'corrupt child list', 'hk': 0} if True else 'corrupt child list'
            continue
        p = prefix + c['n']
        k = c['t']
        if prefix == '' and c['n'] == 'logs':
            continue
        if k == 's':
            v = c['v']
            if c.get('sp') and c.get('st', 0) == 2:
                v = (c['v'], c.get('pv'))
            elif c.get('sp') and c.get('pv') not in ('=v', None):
                v = (c['v'], c.get('pv'))
        elif k == 'i':
            v = (c['h'], c['sv'])
        elif k == 'l':
            v = tuple(c['v'])
        else:
            v = None
        out[(p, k)] = {'sp': c['sp'], 'pr': c['pr'], 'v': v, 'hk': c['hk']}
        if k == 'o':
            flatten(c, p + '/', out)
    return out


def members(flat, objpath):
    pre = objpath + '/' if objpath else ''
    return frozenset((p, k) for (p, k) in flat if p.startswith(pre) and '/' not in p[len(pre):])


def expected(regset, fnodes):
    """The reference model: what the statement says the tree holds after a successful load of the file."""
    exp = {}
    for key, v in fnodes.items():
        exp[key] = {'sp': 0, 'pr': 1, 'v': v}
    for r in regset:
        for path, kind, default, subtype in REGS[r][1]:
            n = exp.setdefault((path, kind), {'sp': 0, 'pr': 0, 'v': default})
            n['sp'] = 1
            if subtype == 2:
                n['v'] = (n['v'], int(n['v'])) if not isinstance(n['v'], tuple) else n['v']
    return exp


def cmp_ref(flat, exp):
    diffs = []
    for key in sorted(set(flat) | set(exp)):
        a, e = flat.get(key), exp.get(key)
        if a is None:
            diffs.append('%s:%s missing (expected %r)' % (key[1], key[0], e['v']))
        elif e is None:
            diffs.append('%s:%s is a leftover (value %r, registered=%d)' % (key[1], key[0], a['v'], a['sp']))
        elif a['v'] != e['v']:
            diffs.append('%s:%s holds %r, expected %r' % (key[1], key[0], a['v'], e['v']))
        elif a['sp'] != e['sp'] or a['pr'] != e['pr']:
            diffs.append('%s:%s flags specified/present %d/%d, expected %d/%d' % (key[1], key[0], a['sp'], a['pr'], e['sp'], e['pr']))
    return diffs


def dkey(dump):
    return json.dumps(dump, sort_keys=True, separators=(',', ':'))


_G = {}


def enabled_regs(regset):
    out = []
    for r in REG_ORDER:
        if r in regset:
            continue
        if any(r in ex and (regset & ex) for ex in EXCL):
            continue
        out.append(r)
    return out


def hist_events(hist):
    return [ROOT, HOOK_UNREG] + [REGS[e[1]][0] if e[0] == 'reg' else ('L', _G['files'][e[1]][1]) for e in hist]


def _fresh(srv, item):
    regset, fi = item
    regs = [REGS[r][0] for r in REG_ORDER if r in regset]
    ld = ('L', _G['files'][fi][1])
    h1, _ = srv.expand([ROOT] + regs + [ld], [], hist_may_die=True)
    h2, _ = srv.expand([ROOT, ld] + regs, [], hist_may_die=True)
    if h1.get('died') or h2.get('died'):
        return {'key': (tuple(sorted(regset)), fi), 'before': 'died', 'after': 'died', 'rcs': ([1], [1]), 'died': h1.get('died') or h2.get('died')}
    return {'key': (tuple(sorted(regset)), fi), 'before': dkey(h1['dump']), 'after': dkey(h2['dump']), 'rcs': (h1['rcs'], h2['rcs'])}


def _expand(srv, st):
    """st = (sid, hist, regset(tuple), last file or None).  Returns successors and violations."""
    sid, hist, regset, lastf = st
    regset = frozenset(regset)
    files = _G['files']
    cands, labels = [], []
    for fi in range(len(files)):
        cands.append(('D', files[fi][1])); labels.append(('load', fi))
    for r in enabled_regs(regset):
        cands.append(REGS[r][0]); labels.append(('reg', r))
    h, res = srv.expand(hist_events(hist), cands, hist_may_die=True)
    if h.get('died'):
        # replaying a history of registrations and loads of valid files killed or hung the process
        return {'sid': sid, 'hkey': None, 'succ': [], 'n': 0, 'rejected': 0,
                'viol': [(('replay', 0), [('C15.memory' if 'Sanitizer' in h.get('stderr', '') else 'C15.died', 'replaying this history of valid loads ended with %s: %s' % (h['died'], (h.get('stderr') or '').strip().splitlines()[:1]))])]}
    before = flatten(h['dump'])
    out = {'sid': sid, 'hkey': dkey(h['dump']), 'succ': [], 'viol': [], 'n': len(cands), 'rejected': 0}
    for lab, r in zip(labels, res):
        V = []
        if r.get('status') != 'ok':
            V.append(('C15.memory' if r.get('status') == 'asan' else 'C15.died', 'process %s: %s' % (r.get('status'), (r.get('stderr', '').strip().splitlines() or ['?'])[0][:200])))
            out['viol'].append((lab, V)); continue
        nreg = regset | ({lab[1]} if lab[0] == 'reg' else set())
        nlast = lab[1] if lab[0] == 'load' else lastf
        if lab[0] == 'load' and r['rc'] != 0:
            out['rejected'] += 1
            continue
        after = flatten(r['dump'])
        dk = dkey(r['dump'])
        if nlast is not None:
            # O1
            d = cmp_ref(after, expected(nreg, _G['fnodes'][nlast]))
            if d:
                V.append(('C15.reference', '; '.join(d[:4])))
            # O2
            fr = _G['fresh'].get((tuple(sorted(nreg)), nlast))
            if fr and fr.get('died'):
                V.append(('C15.died', 'a fresh process doing these registrations and this one load ended with %s' % fr['died']))
            elif fr:
                if fr['before'] != fr['after']:
                    V.append(('C15.order', 'registering before vs. after loading the same file gives different trees: ' + '; '.join(diff_dumps(fr['before'], fr['after'])[:3])))
                elif dk != fr['before']:
                    V.append(('C15.history', 'tree differs from that of a fresh process with the same registrations and file: ' + '; '.join(diff_dumps(dk, fr['before'])[:3])))
        if lab[0] == 'load':
            # O3
            if r.get('rc2') != 0 or not r.get('same2') or [x for x in r.get('hooks2', '').split('\n') if x]:
                V.append(('C15.idempotence', 'second load of the same bytes: rc=%s same-dump=%s hooks=%s' % (r.get('rc2'), r.get('same2'), r.get('hooks2', '').split())))
            # O4
            hooks = set(r['hooks'])
            for key, a in after.items():
                b = before.get(key)
                if b is None or not (a['hk'] == 1 and b['hk'] == 1):
                    continue
                if key[1] != 'o' and a['v'] != b['v'] and ('%s:%s' % (key[1], key[0])) not in hooks:
                    V.append(('C15.hook-missed', '%s:%s changed %r -> %r but its hook did not run (hooks: %s)' % (key[1], key[0], b['v'], a['v'], sorted(hooks))))
                if key[1] == 'o' and members(after, key[0]) != members(before, key[0]) and ('o:%s' % key[0]) not in hooks:
                    V.append(('C15.hook-missed', 'object %s changed membership %s -> %s but its hook did not run' % (key[0], sorted(members(before, key[0])), sorted(members(after, key[0])))))
            if members(after, '') != members(before, '') and 'o:' not in hooks:
                V.append(('C15.hook-missed', 'the root object changed membership %s -> %s but its hook did not run' % (sorted(members(before, '')), sorted(members(after, '')))))
        if V:
            out['viol'].append((lab, V))
        out['succ'].append((lab, dk, tuple(sorted(nreg)), nlast, len(r['hooks'])))
    return out


def diff_dumps(a, b):
    fa, fb = flatten(json.loads(a)), flatten(json.loads(b))
    d = []
    for key in sorted(set(fa) | set(fb)):
        if fa.get(key) != fb.get(key):
            d.append('%s:%s %r vs %r' % (key[1], key[0], fa.get(key), fb.get(key)))
    return d or ['(fields outside the flattened view differ)']


def ev_str(e):
    return 'register(%s)' % e[1] if e[0] == 'reg' else 'load(%s)' % ' ; '.join(render(_G['files'][e[1]][0])).replace('\n', ' ')


def main(tier):
    run = common.Run('C15', 'model_checking', tier)
    try:
        b = build.build()
    except RuntimeError as e:
        raise common.HarnessError(str(e))
    quick = run.tier == 'quick'
    files = universe(quick)
    _G['files'] = files
    _G['fnodes'] = [file_nodes(f[0]) for f in files]
    # all admissible registration sets
    regsets = []
    for k in range(len(REG_ORDER) + 1):
        for comb in itertools.combinations(REG_ORDER, k):
            s = frozenset(comb)
            if any(len(s & ex) > 1 for ex in EXCL):
                continue
            regsets.append(s)
    fresh = {}
    with C.Pool(b, 16) as pool:
        for r in pool.imap(_fresh, [(rs, fi) for rs in regsets for fi in range(len(files))], chunksize=8):
            if 'harness_error' in r:
                raise common.HarnessError(r['harness_error'])
            fresh[r['key']] = r
    _G['fresh'] = fresh
    nbad_fresh = sum(1 for r in fresh.values() if any(x != 0 for x in r['rcs'][0]) or any(x != 0 for x in r['rcs'][1]))
    seen = {}
    states = [(0, [], (), None)]
    parent = {0: None}
    transitions = 0
    rejected = 0
    depth = 0
    hist_of = {0: []}
    level = [0]
    depth_hist = {}
    hook_runs = 0
    complete = True
    samples = []
    maxstates = 3000 if quick else 40000
    with C.Pool(b, 16) as pool:
        while level:
            depth_hist[depth] = len(level)
            if run.out_of_time(30):
                run.cap('deadline before level %d' % depth); complete = False; break
            nxt = []
            for out in pool.imap(_expand, [(sid, hist_of[sid], states[sid][2], states[sid][3]) for sid in level], chunksize=2):
                if 'harness_error' in out:
                    raise common.HarnessError(out['harness_error'])
                sid = out['sid']
                if sid == 0 and out['hkey'] is not None:
                    seen[out['hkey']] = 0
                transitions += out['n']; rejected += out['rejected']
                for lab, V in out['viol']:
                    for cls, text in V:
                        h = hist_of[sid] + ([lab] if lab[0] != 'replay' else [])
                        run.violation(cls, '%s  (history: %s)' % (text, ' | '.join(ev_str(e) for e in h)),
                                      {'engine': 'conf', 'events': [[k, (v if isinstance(v, str) else v.decode('latin-1'))] for k, v in hist_events(h)],
                                       'symbolic': [ev_str(e) for e in h], 'clause': cls},
                                      dedup=cls + '|' + text.split(' ')[0] + '|' + str(lab[0] if lab[0] == 'load' else lab[1]) + '|' + text[:60])
                for lab, dk, nreg, nlast, nhooks in out['succ']:
                    hook_runs += nhooks
                    if dk in seen:
                        continue
                    nid = len(states)
                    seen[dk] = nid
                    states.append((nid, None, nreg, nlast))
                    hist_of[nid] = hist_of[sid] + [lab]
                    nxt.append(nid)
                if run.too_many(60):
                    break
            if run.too_many(60):
                complete = False; break
            if len(states) > maxstates:
                run.cap('state budget %d exceeded at depth %d (the tree depends on history: see violations)' % (maxstates, depth)); complete = False; break
            level = nxt
            depth += 1
    for sid in (1, len(states) // 2, len(states) - 1):
        if 0 < sid < len(states):
            samples.append([ev_str(e) for e in hist_of[sid]])
    if rejected and not run.violations:
        run.note('%d loads of files of the universe were rejected by the parser (not judged by C15)' % rejected)
    if (len(states) < 200 or hook_runs < 100 or rejected * 2 > transitions) and not run.violations and not run.capped:
        raise common.HarnessError('vacuous: states=%d hook runs=%d rejected=%d of %d' % (len(states), hook_runs, rejected, transitions))
    cov = {'states': len(states), 'transitions': transitions, 'traces_validated_against_impl': transitions, 'samples': samples, 'exhaustive': complete,
           'files_in_universe': len(files), 'registration_sets': len(regsets), 'fresh_process_references': 2 * len(fresh), 'fresh_runs_with_a_failed_load': nbad_fresh,
           'depth_histogram': depth_hist, 'hook_invocations_observed': hook_runs, 'loads_rejected_by_parser': rejected,
           'events': ['load(F) for every F of the universe'] + ['register(%s)' % r for r in REG_ORDER],
           'explanation': 'the model IS the implementation: every transition forks the real config.c state, applies one conf_read()/conf_register_*() and dumps the complete live '
                          'tree; states are deduplicated on that dump; the search closes (fixpoint), so histories of every length over the universe are covered; every transition '
                          'is therefore a trace executed on the implementation (traces_validated_against_impl = transitions)'}
    return run.finish(cov, assumptions=['names, values and registrations come from the listed universe', 'a node is registered at most once per process, as the daemon does',
                                        'case-only changes of a host name are not in the universe (host names compare case-insensitively)'])


def replay(obj):
    r = obj['replay']
    b = build.build()
    evs = [(k, v.encode('latin-1') if k == 'L' else v) for k, v in r['events']]
    with C.Server(b) as s:
        for n in range(1, len(evs) + 1):
            last = evs[n - 1]
            h, res = s.expand(evs[:n - 1], [('D', last[1]) if last[0] == 'L' else last])
            x = res[0]
            print('%-60s status=%s rc=%s hooks=%s rc2=%s same2=%s hooks2=%s' % (r['symbolic'][n - 2] if n >= 2 else 'root hook', x.get('status'), x.get('rc'), x.get('hooks'),
                                                                                  x.get('rc2'), x.get('same2'), (x.get('hooks2') or '').split()))
            if n == len(evs):
                print('before: %s\nafter:  %s' % (sorted(flatten(h['dump']).items()), sorted(flatten(x['dump']).items()) if 'dump' in x else x.get('stderr', '')[-800:]))
    print('clause: %s\n%s' % (r['clause'], obj['what']))
    return 1
