"""C19 - the set container is an ordered map for every history.

Explicit-state search (in C, harness/e2_set.c) over the real splay tree: every reachable tree shape over a
7-key universe, every operation from every shape, sorted-array reference + structural audit + cleanup
ledger + ASan/LSan.  One search per stock comparator / key domain, on a set from set_alloc() and on an embedded
(zero-filled, owner-initialised) one.  Depth, which 7 keys cannot give, comes from harness/e2_chain.c: every chain
length 1..N (300 quick, 1000 thorough) x five sorted / alternating insertion orders x {find, lower, insert, remove,
remove without disposal} x every position at and next to both ends and the middle, each from a rebuilt structure.
Hidden state, which merging by tree shape would miss: every operation sequence (insert, remove, find, lower, iterate,
clear) up to depth 6-8 over 2-5 keys replayed without merging and without looking at the structure in between.
"""
import json, os, subprocess, sys
from .. import common, build

DOMAINS = ['int-small', 'int-extreme', 'charp', 'voidp', 'ptr',
           # the same search on a set that does not come from set_alloc(): a zero-filled struct whose compare/cleanup members the owner assigns,
           # which is how src/log.c, src/module.c and src/config.c make theirs
           'int-small@embedded', 'charp@embedded']

def run_chains(b, maxn, embedded):
    p = subprocess.run([os.path.join(b, 'core_vh'), 'set', 'chains', str(maxn), str(embedded)], stdout=subprocess.PIPE, stderr=subprocess.PIPE, text=True)
    viols, summary = [], None
    for line in p.stdout.splitlines():
        try:
            o = json.loads(line)
        except ValueError:
            continue
        if 'violation' in o: viols.append(o['violation'])
        if 'summary' in o: summary = o['summary']
    return p.returncode, viols, summary, p.stderr

def run_domain(b, dom):
    p = subprocess.run([os.path.join(b, 'core_vh'), 'set', 'bfs', dom], stdout=subprocess.PIPE, stderr=subprocess.PIPE, text=True)
    viols, summary, herr = [], None, None
    for line in p.stdout.splitlines():
        try:
            o = json.loads(line)
        except ValueError:
            continue
        if 'violation' in o: viols.append(o['violation'])
        if 'summary' in o: summary = o['summary']
        if 'harness_error' in o: herr = o['harness_error']
    return p.returncode, viols, summary, herr, p.stderr

def classify(v):
    # class = comparator domain + kind of failure; the operation type is part of it
    kind = 'order' if v['detail'].startswith('audit') else v['detail'].split(':')[0].rstrip('0123456789')
    return 'set/%s/%s' % (v['domain'], 'structure' if kind == 'order' else 'result')

def main(tier):
    run = common.Run('C19', 'model_checking', tier)
    try:
        b = build.build()
    except RuntimeError as e:
        raise common.HarnessError(str(e))
    states = transitions = replays = 0
    per = {}
    samples = []
    exhaustive = True
    ubsan = 0
    for dom in DOMAINS:
        rc, viols, summary, herr, err = run_domain(b, dom)
        if herr:
            raise common.HarnessError(herr)
        ubsan += err.count('runtime error:')
        if summary is None:
            # crashed: ASan report or signal -> that is a memory error inside the set code
            run.violation('set/%s/crash' % dom, 'search over domain %s died (rc=%d): %s' % (dom, rc, err.strip().splitlines()[:3]),
                          {'engine': 'core_vh set bfs', 'domain': dom, 'stderr': err[-4000:]})
            exhaustive = False
            continue
        states += summary['states']; transitions += summary['transitions']; replays += summary['replays']
        per[dom] = {k: summary[k] for k in ('states', 'transitions', 'max_depth', 'violations', 'exhaustive', 'ops', 'probes')}
        exhaustive = exhaustive and summary['exhaustive']
        samples += [{'domain': dom, **s} for s in summary['samples'][:2]]
        for v in viols:
            run.violation(classify(v), '%s: after %s, %s -> %s' % (dom, ' '.join(v['history']) or '(empty)', v['op'], v['detail']),
                          {'engine': 'core_vh set replay', 'domain': dom, 'ops': v['history'] + [v['op']]},
                          dedup='%s|%s|%s' % (dom, v['optype'], v['detail'].split(':')[0]))
        if rc not in (0, 1) and not viols:
            run.violation('set/%s/sanitizer' % dom, 'sanitizer report during search over %s: %s' % (dom, err.strip().splitlines()[:4]),
                          {'engine': 'core_vh set bfs', 'domain': dom, 'stderr': err[-4000:]})
    # depth: every chain length 1..N x insertion order family x operation x position (harness/e2_chain.c)
    chains = {}
    maxn = 300 if run.tier == 'quick' else 1000
    for emb in (0, 1):
        rc, viols, summary, err = run_chains(b, maxn, emb)
        name = 'chains' + ('@embedded' if emb else '')
        if summary is None:
            run.violation('set/%s/crash' % name, 'chain enumeration died (rc=%d): %s' % (rc, err.strip().splitlines()[:3]), {'engine': 'core_vh set chains', 'maxn': maxn, 'embedded': emb, 'stderr': err[-4000:]})
            exhaustive = False
            continue
        chains[name] = summary
        transitions += summary['runs']; replays += summary['runs']
        for v in viols:
            run.violation('set/%s/%s' % (name, 'structure' if v['detail'].startswith('audit') or 'list' in v['detail'] else 'result'),
                          '%s: %d keys inserted %s, then %s(%d) -> %s' % (name, v['n'], v['shape'], v['op'], v['key'], v['detail']),
                          {'engine': 'core_vh set chains', 'maxn': v['n'], 'embedded': emb}, dedup='%s|%s|%s' % (name, v['op'], v['detail'].split(':')[0][:30]))
        if rc not in (0, 1) and not viols:
            run.violation('set/%s/sanitizer' % name, 'sanitizer report during chain enumeration: %s' % (err.strip().splitlines()[:4]), {'engine': 'core_vh set chains', 'maxn': maxn, 'embedded': emb, 'stderr': err[-4000:]})
    # hidden state: every operation sequence up to a depth, not merged by tree shape and not inspected in between (harness/e2_chain.c, "seqs")
    from concurrent.futures import ThreadPoolExecutor
    cfgs = [(3, 6, 0), (3, 6, 1), (2, 7, 0)] if run.tier == 'quick' else [(3, 7, 0), (3, 7, 1), (4, 6, 0), (4, 6, 1), (2, 8, 0), (5, 5, 0)]
    def one_seq(cfg):
        p = subprocess.run([os.path.join(b, 'core_vh'), 'set', 'seqs'] + [str(x) for x in cfg], stdout=subprocess.PIPE, stderr=subprocess.PIPE, text=True)
        viols, summary = [], None
        for line in p.stdout.splitlines():
            try:
                o = json.loads(line)
            except ValueError:
                continue
            if 'violation' in o: viols.append(o['violation'])
            if 'summary' in o: summary = o['summary']
        return cfg, p.returncode, viols, summary, p.stderr
    seqs = {}
    with ThreadPoolExecutor(len(cfgs)) as ex:
        for cfg, rc, viols, summary, err in ex.map(one_seq, cfgs):
            name = 'seqs k%d d%d%s' % (cfg[0], cfg[1], '@embedded' if cfg[2] else '')
            if summary is None:
                run.violation('set/seqs/crash', '%s died (rc=%d): %s' % (name, rc, err.strip().splitlines()[:3]), {'engine': 'core_vh set seqs', 'cfg': list(cfg), 'stderr': err[-4000:]})
                exhaustive = False
                continue
            seqs[name] = summary
            transitions += summary['runs']; replays += summary['runs']
            for v in viols:
                run.violation('set/seqs/%s' % ('structure' if 'list' in v['detail'] or 'audit' in v['detail'] else 'result'), '%s: %s -> %s' % (name, v['shape'], v['detail']),
                              {'engine': 'core_vh set seqs', 'cfg': list(cfg)}, dedup='seqs|%s' % v['detail'].split(':')[-1][:40])
    if states < 5 * 1000 and not run.violations and not run.capped:
        raise common.HarnessError('vacuous: only %d states' % states)
    cov = {
        'states': states, 'transitions': transitions, 'traces_validated_against_impl': replays,
        'samples': samples, 'exhaustive': exhaustive, 'per_domain': per, 'ubsan_reports': ubsan, 'chains': chains, 'unmerged_sequences': seqs,
        'explanation': 'every transition is an execution of the real set.c: the structure is rebuilt from its operation history on a fresh set, '
                       'one operation applied, result/size/membership compared with a sorted-array reference, tree+list audited, cleanup ledger checked; '
                       'states are canonical tree shapes (pre-order of key indices); the search runs to a fixpoint so histories of every length over 7 keys are covered',
    }
    return run.finish(cov, assumptions=['tree shape determines future behaviour of the set (no hidden state besides l/r/prev/next/count)',
                                        'libc allocator and sanitizers are trusted'])

def replay(obj):
    b = build.build()
    r = obj['replay']
    if r.get('engine') == 'core_vh set seqs':
        p = subprocess.run([os.path.join(b, 'core_vh'), 'set', 'seqs'] + [str(x) for x in r['cfg']])
        return 1 if p.returncode else 0
    if r.get('engine') == 'core_vh set chains' and 'maxn' in r:
        p = subprocess.run([os.path.join(b, 'core_vh'), 'set', 'chains', str(r['maxn']), str(r['embedded'])])
        return 1 if p.returncode else 0
    if 'ops' not in r:
        print(r.get('stderr', '')); return 1
    p = subprocess.run([os.path.join(b, 'core_vh'), 'set', 'replay', r['domain']] + r['ops'])
    return 1 if p.returncode else 0
