"""C02 - no premature acceptance (DESIGN 5/C02).  The timer is an ordinary event, tried at every point."""
from . import pcommon
from .. import common
NEED = ('accept-D', 'accept-R', 'accept-forced-by-timeout', 'timeout-while-owed', 'password-bang', 'reply-OKE', 'reply-NO', 'soft-done')

def plan(tier):
    # incl. reloads of the service table while the client waits; a refusal from a service the reload dropped still counts
    return [pcommon.reload_search(tier, 'refuse')] + pcommon.plan_solo(tier) + [pcommon.reload_search(tier)]

def real_timeout(run):
    """"...unless that client's configured request timeout has expired": with the unmodified daemon, a 2 s timeout and a query that is never answered, a client
    announced at different phases of the wall-clock second must not be accepted before 2 s have really passed (a one-sided measurement: a busy machine
    only makes the verdict later)."""
    import time
    from .. import build, e3
    b = build.build()
    services = pcommon.G['drone']
    conf = e3.plain_conf(b, services=services, timeout=2, rules=pcommon.rules_for(services))
    d = e3.Daemon(conf, b=b)
    early = []
    n = 0
    try:
        if not d.wait_banner():
            raise common.HarnessError('E3 daemon did not start')
        for k, phase in enumerate((0.05, 0.35, 0.65, 0.92)):
            cid = 21 + k
            while abs((time.time() % 1.0) - phase) > 0.02:
                time.sleep(0.005)
            t0 = time.time()
            d.write(('%d C 10.0.2.%d 40%d 10.9.9.9 6667\n%d N h%d.example.net\n%d u id%d\n%d n nick%d\n%d U user%d :Real Name\n' % ((cid,) * 11)).encode())
            key = ('D %d ' % cid).encode()
            d.wait_for(lambda o: (b'\n' + key) in (b'\n' + o), 8)
            t1 = time.time()
            n += 1
            if any(l.startswith('D %d ' % cid) for l in d.lines()) and t1 - t0 < 1.9:
                early.append((cid, round(t1 - t0, 2), phase))
        rc, out, err = d.close(10)
    except Exception:
        d.close(5)
        raise
    if early:
        run.violation('C02.query-unanswered', '[E3 real timer] timeout 2 s, the dronecheck query never answered: accepted after %s (client id, seconds, phase of the second at which it was announced)' % early,
                      {'engine': 'E3', 'conf': conf, 'early': early}, dedup='realtimeout')
    return {'real_timeout_clients': n}


def main(tier):
    return pcommon.run_plan('C02', tier, plan(tier), ('C02.',), NEED, extra_cov=real_timeout)

replay = pcommon.replay
