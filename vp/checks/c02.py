"""C02 - no premature acceptance (DESIGN 5/C02).  The timer is an ordinary event, tried at every point."""
from . import pcommon
NEED = ('accept-D', 'accept-R', 'accept-forced-by-timeout', 'timeout-while-owed', 'password-bang', 'reply-OKE', 'reply-NO', 'soft-done')

def plan(tier):
    # incl. reloads of the service table while the client waits; a refusal from a service the reload dropped still counts
    return [pcommon.reload_search(tier, 'refuse')] + pcommon.plan_solo(tier) + [pcommon.reload_search(tier)]

def main(tier):
    return pcommon.run_plan('C02', tier, plan(tier), ('C02.',), NEED)

replay = pcommon.replay
