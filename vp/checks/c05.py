"""C05 - verdict content is faithful to what the services said (DESIGN 5/C05).

(a) closed solo searches with monitor M05 (every protocol type answering with every reply kind in every order,
    incl. two account replies of different length for one instance);
(b) text dimension: on a fixed skeleton history per reply kind, every text of a boundary-value menu (empty text,
    trailing / leading blanks, leading ':', '%' conversions, 1..400 characters, high-bit bytes) for NO / AGAIN /
    MORE, and every account shape (1, 63, 64, 65 characters, ':stamp' suffix, trailing words) for OK - each run on
    the real daemon and judged by the same observer (relay verbatim, account = the vouched one)."""
import os
from . import pcommon
from .. import common, build, e1, proto, tpool

NEED = ('accept-R', 'accept-D', 'reject', 'reply-MORE', 'reply-AGAIN', 'dronecheck-offers-account', 'mode-x-sent', 'accept-with-class', 'second-stamp')

TEXTS = ['x', 'two words', ':leading colon', 'a : b % c %s %d %n %%', '', 'trailing space ', 'two trailing  ', '  two leading spaces', 'tab\there', 'x' * 64, 'y' * 65, 'z' * 200, 'w' * 400,
         'high bit \xe9\xff']
ACCOUNTS = ['a', 'b' * 63, 'c' * 64, 'd' * 65, 'acct:123', ('e' * 62) + ':9', ('f' * 64) + ':9', 'acct extra words', 'acct:5 extra', 'A.b-c_d[e]', 'ka', 'k:0']


def plan(tier):
    # incl. a service table that changes under a waiting client: what a departed service said must not be credited to its successor
    return [pcommon.reload_search(tier, 'slot')] + pcommon.plan_solo(tier)


def variants():
    vs = []
    for t in TEXTS:
        for kind in ('NO', 'AGAIN', 'MORE'):
            vs.append((kind, {kind: '%s %s' % (kind, t)}))
    for a in ACCOUNTS:
        vs.append(('OKA', {'OKA': 'OK ' + a}))
        vs.append(('OKA2', {'OKA': 'OK longer-first-account:77', 'OKS': 'OK ' + a}))     # second, different stamp after a re-login
    return vs


_W = {}


def _job(server, item):
    k, (kind, replies) = item
    i = 6000 + k
    c = dict(proto.CLIENTS[1]); c['replies'] = replies
    proto.CLIENTS[i] = c
    w = _W.get('w')
    if w is None:
        w = _W['w'] = proto.World(pcommon.G['login+drone'], pcommon.rules_for(pcommon.G['login+drone']), server.banner, 0)
    if kind == 'OKA':
        syms = [('C', i), ('H', i), ('P', i, 'x'), ('X', i, 'drone.svc', 'cur', 'OK'), ('X', i, 'login.svc', 'cur', 'OKA')]
    elif kind == 'OKA2':
        syms = [('C', i), ('P', i, 'x'), ('X', i, 'login.svc', 'cur', 'OKA'), ('P', i, 'x'), ('X', i, 'login.svc', 'cur', 'OKS'), ('H', i), ('X', i, 'drone.svc', 'cur', 'OK')]
    else:
        syms = [('C', i), ('H', i), ('P', i, 'x'), ('X', i, 'login.svc', 'cur', kind)]
    V, outs, status, err, done = tpool.run_symbolic(server, w, [i], syms)
    return {'k': k, 'kind': kind, 'replies': replies, 'V': [(t, x, n) for t, x, n in V if t.startswith('C05.')], 'status': status, 'err': err[-1200:],
            'syms': [list(s) for s in syms], 'outs': outs}


def texts(run, tier):
    b = build.build()
    conf = e1.conf_text(os.path.join(b, 'mods-wrapped'), services=pcommon.G['login+drone'], timeout=0, rules=pcommon.rules_for(pcommon.G['login+drone']))
    vs = variants()
    n = 0
    relayed = 0
    sample = None
    with tpool.TracePool(conf, b, n=8) as tp:
        for r in tp.imap(_job, list(enumerate(vs)), chunksize=4):
            if 'harness_error' in r:
                raise common.HarnessError(r['harness_error'])
            n += 1
            if r['status'] != 'ok':
                run.violation('C05.text/died', '[texts] the daemon died (%s) on reply %r: %s' % (r['status'], r['replies'], (r['err'].strip().splitlines() or ['?'])[0][:160]),
                              {'engine': 'E1-trace', 'conf': conf, 'replies': r['replies'], 'kind': r['kind']}, dedup='textdied|' + r['kind'])
            for t, x, idx in r['V']:
                run.violation(t, '[texts/%s %r] %s' % (r['kind'], r['replies'], x), {'engine': 'E1-trace', 'conf': conf, 'replies': r['replies'], 'kind': r['kind'], 'outputs': r['outs']},
                              dedup='text|%s|%s|%s' % (t, r['kind'], len(str(r['replies'])) > 80))
            last = [l for o in r['outs'] for l in o if l[:2] in ('k ', 'C ', 'R ', 'D ')]
            relayed += len(last)
            if sample is None and r['kind'] == 'MORE':
                sample = {'replies': r['replies'], 'outputs': r['outs']}
    if relayed < len(vs) and not run.violations and not run.capped:
        raise common.HarnessError('vacuous text dimension: %d verdict/challenge lines for %d variants' % (relayed, len(vs)))
    return {'text_variants': n, 'text_verdict_or_challenge_lines_checked': relayed, 'text_menu': [t[:40] for t in TEXTS], 'account_menu': [a[:40] for a in ACCOUNTS], 'text_sample': sample}


def main(tier):
    return pcommon.run_plan('C05', tier, plan(tier), ('C05.',), NEED, extra_cov=lambda run: texts(run, tier))


def replay(obj):
    r = obj['replay']
    if r.get('engine') != 'E1-trace':
        return pcommon.replay(obj)
    b = build.build()
    with e1.Server(r['conf'], builddir=b) as srv:
        res = _job(srv, (0, (r['kind'], r['replies'])))
    for s, o in zip(res['syms'], res['outs']):
        print(s, '->', o)
    for t, x, n in res['V']:
        print('!!', t, x)
    return 1 if res['V'] or res['status'] != 'ok' else 0
