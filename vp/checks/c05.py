"""C05 - verdict content is faithful to what the services said (DESIGN 5/C05)."""
from . import pcommon
NEED = ('accept-R', 'accept-D', 'reject', 'reply-MORE', 'reply-AGAIN', 'dronecheck-offers-account', 'mode-x-sent', 'accept-with-class', 'second-stamp')

def plan(tier):
    return pcommon.plan_solo(tier)

def main(tier):
    return pcommon.run_plan('C05', tier, plan(tier), ('C05.',), NEED)

replay = pcommon.replay
