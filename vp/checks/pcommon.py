"""Shared driver for the protocol properties (C01-C07, C09, C10): plans of searches per tier, filtering of
observer clauses per property, E3 conformance replays, vacuity guards, evidence, replay of violations."""
import json, os, sys, time
from concurrent.futures import ThreadPoolExecutor
from .. import common, build, e1, e3, proto, psearch, alpha

# ---- service tables (Gamma) ------------------------------------------------------------------------
G = {
    'none': [],
    'login': [('login.svc', 'login')],
    'ipr': [('lipr.svc', 'login-ipr')],
    'drone': [('drone.svc', 'dronecheck')],
    'comb': [('lcomb.svc', 'combined')],
    'login+drone': [('login.svc', 'login'), ('drone.svc', 'dronecheck')],
    'ipr+comb': [('lipr.svc', 'login-ipr'), ('lcomb.svc', 'combined')],
    'login+login': [('login.svc', 'login'), ('login2.svc', 'login')],
    'all4': [('login.svc', 'login'), ('lipr.svc', 'login-ipr'), ('drone.svc', 'dronecheck'), ('lcomb.svc', 'combined')],
}


def rules_for(services):
    last = services[-1][0] if services else 'nosuch.svc'
    return [('A-acct', {'account': 'ac1l*', 'class': 'cA'}), ('b-ok', {'xreply_ok': last}), ('c-host', {'hostname': 'host1*', 'class': 'cH'})]


def S(label, gamma, timeout, ids, alph, flags=e1.F_DUMP | e1.F_STATS, maxdepth=None, maxstates=None, **kw):
    return dict(label=label, services=G[gamma], rules=rules_for(G[gamma]), timeout=timeout, ids=ids, alphabet=alph, flags=flags,
                maxdepth=maxdepth, maxstates=maxstates, **kw)




def reload_alphabet(ids, replies=('OKA', 'MORE'), files=('no-a.conf', 'no-b.conf', 'ghost.conf', 'orig.conf')):
    """Hurry-up scenario of one client plus reloads of the service table at any point: an awaited or an idle service is removed
    (so that a slot is vacated below or above the awaited one), a differently named login service (ghost.svc) is added - possibly
    into the vacated slot - or the original table returns."""
    base = alpha.make(ids, data=('H',), ends=('D',), passwords=('x', 'bang'), replies=replies, old_replies=(), malformed=(),
                      ghost_replies=replies, pbudget=1, dead_probes=False, reannounce=False)
    def fn(st, w):
        return base(st, w) + [('RL', f) for f in files]
    return fn


def reload_search(tier, variant='three'):
    """variant 'three': three services, the table shrinks and grows around an awaited one (holds and routing: C02/C03/C04).
    variant 'slot': two services and a rule on the newcomer; a service that has answered leaves, a differently named one arrives in a
    LATER reload (the only way a vacated slot is reused) - the newcomer must be asked, and nothing its predecessor said may count for it
    (C05/C06/C11).  The observer follows the table in force (World per reload target)."""
    if variant == 'refuse':
        # a service that owes an answer is dropped by a reload; its refusal (or OK) arrives afterwards; the request timeout may fire at any point (C02/C03/C05)
        services = [('a.svc', 'login'), ('b.svc', 'dronecheck')]
        rules = rules_for(services)
        tables = {'no-a.conf': services[1:], 'no-b.conf': services[:1], 'none.conf': [], 'orig.conf': services}
        base = alpha.make([1], data=('H',), ends=('D',), passwords=('x',), replies=('OK', 'NO', 'AGAIN'), old_replies=(), malformed=(), ghost_replies=(), pbudget=2, dead_probes=False, reannounce=False)
        alph = lambda st, w: base(st, w) + [('RL', f) for f in tables]
        files = {n: (lambda md_, t=t: e1.conf_text(md_, services=t, timeout=30, rules=rules)) for n, t in tables.items()}
        return dict(label='solo/reloads-refuse/login+drone/t30', services=services, rules=rules, timeout=30, ids=[1], alphabet=alph, flags=e1.F_DUMP | e1.F_STATS,
                    maxdepth=12 if tier != 'quick' else 9, maxstates=40000 if tier != 'quick' else 8000, keep_refs=True, reload_files=files, reload_tables=tables, merge_check=False)
    if variant == 'timeout':
        # the request timeout itself is reloaded (30 s -> none -> 60 s ...) while a client waits; judged: bookkeeping, clean exit, no memory error
        services = G['login+drone']
        rules = rules_for(services)
        base = alpha.make([1], data=('H',), ends=('D', 'T'), passwords=('x',), replies=('OKA', 'NO', 'MORE'), old_replies=(), malformed=(), ghost_replies=(), pbudget=2, dead_probes=False)
        names = ('t0.conf', 't30.conf', 't60.conf')
        alph = lambda st, w: base(st, w) + [('RL', f) for f in names]
        files = {'t%d.conf' % t: (lambda md_, t=t: e1.conf_text(md_, services=services, timeout=t, rules=rules)) for t in (0, 30, 60)}
        return dict(label='solo/reloads-timeout/login+drone/t30', services=services, rules=rules, timeout=30, ids=[1], alphabet=alph, flags=e1.F_DUMP | e1.F_STATS | e1.F_EOF,
                    maxdepth=12 if tier != 'quick' else 8, maxstates=40000 if tier != 'quick' else 6000, keep_refs=True, reload_files=files, merge_check=False, judge_timers=False)
    if variant == 'three':
        services = [('a.svc', 'login'), ('b.svc', 'dronecheck'), ('c.svc', 'login')]
        rules = rules_for(services)
        tables = {'no-a.conf': services[1:], 'no-b.conf': [services[0], services[2]], 'ghost.conf': [('b.svc', 'dronecheck'), ('ghost.svc', 'login')], 'orig.conf': services}
        alph = reload_alphabet([1])
        label = 'solo/reloads/login+drone+login/t0'
        md, ms = (12, 60000) if tier != 'quick' else (7, 8000)
    else:
        services = [('a.svc', 'login'), ('b.svc', 'dronecheck')]
        rules = [('A-acct', {'account': 'ac1l*', 'class': 'cA'}), ('b-newcomer', {'xreply_ok': 'ghost.svc', 'class': 'cG'}), ('c-old', {'xreply_ok': 'a.svc', 'class': 'cO'}),
                 ('d-host', {'hostname': 'host1*', 'class': 'cH'})]
        tables = {'no-a.conf': services[1:], 'ghost.conf': [('b.svc', 'dronecheck'), ('ghost.svc', 'login')], 'orig.conf': services}
        alph = reload_alphabet([1], replies=('OK', 'OKA'), files=tuple(tables))
        label = 'solo/reloads-slot/login+drone/t0'
        md, ms = (12, 60000) if tier != 'quick' else (8, 12000)
    files = {n: (lambda md_, t=t: e1.conf_text(md_, services=t, timeout=0, rules=rules)) for n, t in tables.items()}
    return dict(label=label, services=services, rules=rules, timeout=0, ids=[1], alphabet=alph, flags=e1.F_DUMP | e1.F_STATS,
                maxdepth=md, maxstates=ms, keep_refs=True, reload_files=files, reload_tables=tables, merge_check=False)


def plan_solo(tier, which=('hurry', 'orders')):
    """The standard solo searches.  quick: two closed scenario alphabets on {login, dronecheck} plus the
    single-service tables where the module has no login-type service to fall back on; thorough: all tables."""
    p = []
    if tier == 'quick':
        if 'hurry' in which:
            p.append(S('solo/hurry/login+drone/t30', 'login+drone', 30, [1], alpha.scen_hurry([1])))
            p.append(S('solo/hurry/drone/t30', 'drone', 30, [1], alpha.scen_hurry([1])))
            p.append(S('solo/hurry/ipr+comb/t0', 'ipr+comb', 0, [1], alpha.scen_hurry([1])))       # the two other protocols, no timeout configured
        if 'orders' in which:
            p.append(S('solo/orders/login+drone/t30', 'login+drone', 30, [1], alpha.scen_orders([1])))
    else:
        for g in ('login+drone', 'drone', 'login', 'ipr', 'comb', 'ipr+comb', 'login+login', 'none', 'all4'):
            for t in (30, 0):
                if 'hurry' in which:
                    p.append(S('solo/hurry/%s/t%d' % (g, t), g, t, [1], alpha.scen_hurry([1], pbudget=3)))
                if 'orders' in which and g in ('login+drone', 'ipr+comb', 'drone', 'all4'):
                    p.append(S('solo/orders/%s/t%d' % (g, t), g, t, [1], alpha.scen_orders([1])))
        p.append(S('solo/full/login+drone/t30', 'login+drone', 30, [1], alpha.full([1])))
    return p


# ---- conformance: E1 histories replayed through the unmodified daemon (E3) ---------------------------
def conformance(search, limit, run):
    traces = search.maximal_traces()
    # histories without timer events (cut at the first one)
    seen, todo = set(), []
    for tr in traces:
        cut = []
        for sym, cev, out in tr:
            if cev[0] != 'L':
                break
            cut.append((sym, cev, out))
        if not cut:
            continue
        key = tuple(c[1][1] for c in cut)
        if key in seen:
            continue
        seen.add(key)
        todo.append(cut)
        if limit and len(todo) >= limit:
            break
    conf = e3.plain_conf(search.b, services=search.services, timeout=search.timeout, rules=search.rules)

    def one(tr):
        data = b''.join((c[1][1] if isinstance(c[1][1], bytes) else c[1][1].encode('latin-1')) for c in tr)
        rc, out, err, ok = e3.run_stream(conf, [data], b=search.b, timeout=20.0)
        if rc == 'timeout':
            # alone and with a long limit before this counts as "does not leave at end of input" (the machine may just be busy)
            rc, out, err, ok = e3.run_stream(conf, [data], b=search.b, timeout=120.0)
        want = list(search.banner)
        for _, _, o in tr:
            want += o
        return (rc, out, want, err, tr)

    bad = []
    n = 0
    with ThreadPoolExecutor(12) as ex:
        for k in range(0, len(todo), 24):
            for rc, out, want, err, tr in ex.map(one, todo[k:k + 24]):
                n += 1
                if rc != 0 or out != want:
                    bad.append((rc, out, want, err[-600:], [proto.ev_str(c[0]) for c in tr]))
            if len(bad) >= 3:
                break       # (a daemon that does not even leave at end of input makes every replay wait for its time limit)
    if bad:
        rc, out, want, err, h = bad[0]
        raise common.HarnessError('conformance: the unmodified daemon fed the same history disagrees with E1 (%d of %d traces); first: %s\n rc=%s\n E3: %r\n E1: %r\n %s'
                                  % (len(bad), n, ' | '.join(h), rc, out, want, err))
    return n


# ---- running a plan for one property ----------------------------------------------------------------
def flavour(tag, text):
    return tag


def run_plan(pid, tier, plan, prefixes, need_witnesses=(), crash_is_violation=False, conformance_limit=150, level='model_checking',
             extra_cov=None, post=None, assumptions=(), pre_cov=None):
    run = common.Run(pid, level, tier)
    try:
        build.build()
    except RuntimeError as e:
        raise common.HarnessError(str(e))
    pre = pre_cov(run) if pre_cov else {}      # cheap enumerations first: a long search must not starve them of time
    deferred = []
    tot_states = tot_trans = tot_conf = 0
    per = []
    witnesses = set()
    samples = []
    all_complete = True
    other_tags = {}
    for spec in plan:
        if run.out_of_time(30):
            run.cap('deadline reached before search %s' % spec['label'])
            all_complete = False
            continue
        kw = dict(spec)
        kw.pop('merge_check', None)
        label = kw.pop('label')
        s = psearch.Search(run, kw.pop('services'), kw.pop('rules'), kw.pop('timeout'), kw.pop('ids'), kw.pop('alphabet'), label=label, **kw)
        t0 = time.time()
        s.go()
        tot_states += len(s.states); tot_trans += s.transitions
        witnesses |= s.witnesses
        all_complete = all_complete and s.complete
        for tag, text, sid, ev, cev, out in s.violations:
            if any(tag.startswith(p) for p in prefixes):
                run.violation(tag, '[%s] %s  (history: %s => %s)' % (label, text, ' | '.join(proto.ev_str(e) for e in s.sym_history(sid)) or '-', proto.ev_str(ev)),
                              s.replay_obj(sid, ev, cev, {'clause': tag, 'search': label}), dedup=label + '|' + tag)
        for tag, n in s.tag_counts.items():
            if not any(tag.startswith(p) for p in prefixes):
                other_tags[tag] = other_tags.get(tag, 0) + n
        for sid, ev, cev, cr in s.crashes:
            msg = '[%s] the daemon died (%s) on %s after %s: %s' % (label, cr['status'], proto.ev_str(ev), ' | '.join(proto.ev_str(e) for e in s.sym_history(sid)) or '-', (cr['err'].strip().splitlines() or [''])[0][:200])
            if crash_is_violation is True or (crash_is_violation and ev[0] in crash_is_violation):
                run.violation(pid + '.crash', msg, s.replay_obj(sid, ev, cev, {'clause': pid + '.crash', 'search': label, 'stderr': cr['err']}), dedup=label + '|crash|' + ev[0])
            else:
                other_tags['crash'] = other_tags.get('crash', 0) + 1
        # continuations of merged histories judged by the observer (state outside the dump cannot hide behind a merge)
        nmerge = 0
        if spec.get('merge_check', True) and len(s.ids) == 1 and not run.out_of_time(60):
            nmerge, _diff = s.merge_check(limit=150 if tier == 'quick' else 1500)
            if any('C04.'.startswith(p) for p in prefixes):
                # a reply that changed nothing visible (the state after it is the state before it) must not change anything later either (C04, second half)
                for text, rep in _diff:
                    if rep.get('self_loop') and rep.get('last_event', [''])[0] == 'X':
                        run.violation('C04.stray-later-behaviour', '[%s] the reply %s left the visible state as it was, but: %s' % (label, proto.ev_str(tuple(rep['last_event'])), text), rep, dedup=label + '|later|' + str(rep['last_event'][3:]))
            for tag, text, rep in s.merge_observed:
                if any(tag.startswith(p) for p in prefixes):
                    run.violation(tag, '[%s] %s' % (label, text), rep, dedup=label + '|merge|' + tag)
        nconf = 0
        if conformance_limit and not run.out_of_time(20):
            try:
                nconf = conformance(s, conformance_limit, run)
                tot_conf += nconf
            except common.HarnessError as e:
                # the daemon in its real event loop disagrees with the fork-server engine: nothing E1 found can be trusted - but the remaining stages that
                # drive the unmodified daemon themselves still run, and if they find a violation that is what gets reported
                deferred.append(e)
        if post:
            post(run, s, label)
        per.append({'search': label, 'states': len(s.states), 'transitions': s.transitions, 'fixpoint': s.complete, 'levels': s.levels_done,
                    'depth_histogram': s.depth_hist, 'disabled_events': s.disabled, 'conformance_traces': nconf,
                    'services': s.services, 'timeout': s.timeout, 'ids': s.ids, 'wall_s': round(time.time() - t0, 1),
                    'distinct_output_shapes_per_event_kind': {k: len(v) for k, v in s.out_kinds.items()}, 'merged_history_pairs_continued': nmerge})
        # samples: a short and a long explored history with outputs
        if s.states:
            for sid in (min(len(s.states) - 1, 3), len(s.states) - 1):
                samples.append({'search': label, 'history': [{'event': proto.ev_str(a), 'output': c} for a, b, c in s.trace(sid)]})
    missing = [w for w in need_witnesses if w not in witnesses]
    if missing and not run.violations and not run.capped:
        raise common.HarnessError('vacuous exploration: witnesses never produced: %s' % missing)
    cov = {'states': tot_states, 'transitions': tot_trans, 'traces_validated_against_impl': tot_conf, 'samples': samples[:6],
           'exhaustive': all_complete, 'searches': per, 'witnesses': sorted(witnesses), 'clauses_of_other_properties_seen': other_tags,
           'explanation': 'explicit-state BFS over the real daemon (fork server inside the running process; every transition calls the real handlers) in product with '
                          'trace monitors written from the property statement; states are canonical dumps of the daemon + monitor state; "fixpoint": true means the '
                          'search closed, i.e. histories of every length over that alphabet are covered; traces_validated_against_impl counts BFS-tree histories replayed '
                          'through the unmodified daemon binary over a real pipe with byte-identical stdout'}
    cov.update(pre)
    if extra_cov:
        cov.update(extra_cov(run) if callable(extra_cov) else extra_cov)
    if deferred and not run.violations:
        raise deferred[0]
    if deferred:
        run.cap('conformance replays disagreed (%s); reported are the violations found by stages that drive the unmodified daemon' % str(deferred[0])[:200])
    return run.finish(cov, assumptions=list(assumptions) + [
        'libevent, libc and the dynamic loader are trusted; calling the read handler directly equals what the event loop does (checked by the conformance replays)',
        'field contents come from a fixed menu per client id; alphabets and budgets as listed per search'])


def extra_search(run, spec, prefixes, retag=None):
    """One BFS search run inside a check that is not plan-driven; violations of the listed clauses are reported (optionally under another tag)."""
    kw = dict(spec)
    kw.pop('merge_check', None)
    label = kw.pop('label')
    s = psearch.Search(run, kw.pop('services'), kw.pop('rules'), kw.pop('timeout'), kw.pop('ids'), kw.pop('alphabet'), label=label, **kw)
    s.go()
    for tag, text, sid, ev, cev, out in s.violations:
        if any(tag.startswith(p) for p in prefixes):
            t2 = retag or tag
            run.violation(t2, '[%s] %s  (history: %s => %s)' % (label, text, ' | '.join(proto.ev_str(e) for e in s.sym_history(sid)) or '-', proto.ev_str(ev)),
                          s.replay_obj(sid, ev, cev, {'clause': tag, 'search': label}), dedup=label + '|' + tag)
    return {'search': label, 'states': len(s.states), 'transitions': s.transitions, 'fixpoint': s.complete, 'levels': s.levels_done, 'witnesses': sorted(s.witnesses)}


# ---- serial sweep: the same conversation after n-1 earlier announcements -------------------------------------------
SWEEP_N = list(range(1, 41)) + [255, 256, 257, 4095, 4096, 4097, 65535, 65536, 65537]

def serial_sweep(run, prefixes, thorough=False):
    """The searches abstract routing serials to ranks.  This enumeration covers what that abstraction cannot see: for every n
    of a boundary list the probe client is the n-th announcement of the daemon's life (earlier ones reuse the same id and are
    withdrawn).  Its conversation must equal that of n = 1 up to the serial in its tag (C07), and a reply carrying the tag of
    the previous instance of its id must be ignored (C04).  Tags are read from the daemon's own dump, not computed."""
    b = build.build()
    services = G['login+drone']
    conf = e1.conf_text(os.path.join(b, 'mods-wrapped'), services=services, timeout=0, rules=rules_for(services))
    C = '1 C 10.0.0.1 1111 10.9.9.9 6667\n'
    import re
    mask = lambda lines, tag: [l.replace(tag, 'TAG') for l in lines]
    base = None
    base_tag = None
    n_done = 0
    with e1.Server(conf, builddir=b) as srv:
        for n in SWEEP_N:
            if run.out_of_time(30):
                run.cap('serial sweep stopped before n=%d' % n)
                break
            hist = []
            if n >= 3:
                hist.append(('L', (C + '1 D\n') * (n - 2)))
            tag_prev = None
            if n >= 2:
                hist += [('L', C), ('L', '1 P :+x acctA passA\n')]
                hd, bad, _ = srv.expand(hist, [], e1.F_DUMP)
                tag_prev = next(d['tag'] for d in hd if d['t'] == 'req' and d['id'] == 1)
                hist.append(('L', '1 D\n'))
            hist += [('L', C), ('L', '1 H\n'), ('L', '1 P :+x acctA passA\n')]
            hd, bad, _ = srv.expand(hist, [], e1.F_DUMP)
            req = [d for d in hd if d['t'] == 'req' and d['id'] == 1]
            if len(req) != 1:
                if run.violations or run.capped:
                    return {'serial_sweep_n_values': n_done}
                raise common.HarnessError('serial sweep: probe client not live after its announcement (n=%d)' % n)
            tag = req[0]['tag']
            good = ('L', '-1 X login.svc %s :OK acctA:7\n-1 X drone.svc %s :OK\n' % (tag, tag))
            cands = [good]
            stale = []
            if tag_prev:
                stale.append(tag_prev)
            # tags of other instances that are textual prefixes of the live one (1_1 for 1_10..1_1f, 1_10 for 1_100 ...) and the first instance's tag
            us = tag.find('_')
            stale += [tag[:k] for k in range(us + 2, len(tag)) if tag[:k] not in stale]
            if n > 1 and base_tag and base_tag not in stale:
                stale.append(base_tag)      # the first instance's tag - also when the live instance carries the very same text (serials that wrapped)
            for t in stale:
                cands.append(('L', '-1 X login.svc %s :OK stale:1\n' % t))
                cands.append(('L', '-1 X login.svc %s :NO stale refusal\n' % t))
            hd, bad, res = srv.expand(hist, cands, e1.F_DUMP)
            n_done += 1
            rec = (res[0].status, mask(res[0].out, tag))
            if base is None:
                base = rec
                base_tag = tag
            elif rec != base:
                if any('C07.'.startswith(p) for p in prefixes): run.violation('C07.serial-sweep', 'the %d-th client announced since start-up gets %r for the conversation that gives the first client %r (tag %s)' % (n, rec, base, tag),
                              {'engine': 'E1-sweep', 'conf': conf, 'n': n}, dedup='sweep07')
            for k, r in enumerate(res[1:]):
                what, st_tag = ('OK', 'NO')[k % 2], stale[k // 2]
                if r.status != 'ok' or r.out:
                    if any('C04.'.startswith(p) for p in prefixes): run.violation('C04.serial-sweep-stale', 'a %s reply carrying the tag %s, which names another (departed) instance of id 1 (the live one is %s, n=%d), produced %r (%s)' % (what, st_tag, tag, n, r.out, r.status),
                                  {'engine': 'E1-sweep', 'conf': conf, 'n': n}, dedup='sweep04' + what)
    if (base is None or base[0] != 'ok' or not any(l.startswith('R 1 ') for l in base[1])) and not run.violations and not run.capped:
        raise common.HarnessError('serial sweep: the baseline conversation did not end in an R verdict: %r' % (base,))
    nforms = tag_forms(run, prefixes, b, conf)
    return {'serial_sweep_n_values': n_done, 'serial_sweep_max_n': max(SWEEP_N[:n_done]) if n_done else 0, 'tag_forms_tried': nforms}


def tag_forms(run, prefixes, b, conf):
    """Tag texts that are NOT the text the daemon sent, although a lenient number parser reads the live client's id and serial out of them: explicit signs, a 0x
    prefix, an empty id (client 0), numbers written negative modulo 2^32 / 2^64, trailing junk.  For client ids 0, 1, 26 and INT_MAX as the 1st and the 3rd
    announcement, each form carried by a NO and an OK reply from the awaited service: no output, state unchanged.  (Leading zeros and upper-case hex digits are
    left out: whether such a text still "names" the client is a matter of taste.)"""
    if not any('C04.'.startswith(p) for p in prefixes):
        return 0
    n = 0
    with e1.Server(conf, builddir=b) as srv:
        for cid in (0, 1, 26, 2147483647):
            for nth in (1, 3):
                C = '%d C 10.0.0.1 1111 10.9.9.9 6667\n' % cid
                hist = [('L', (C + '%d D\n' % cid) * (nth - 1))] if nth > 1 else []
                hist += [('L', C), ('L', '%d P :+x acctA passA\n' % cid)]
                hd, bad, _ = srv.expand(hist, [], e1.F_DUMP)
                req = [d for d in hd if d['t'] == 'req' and d['id'] == cid]
                if len(req) != 1 or '_' not in req[0]['tag']:
                    if run.violations or run.capped:
                        return n
                    raise common.HarnessError('tag forms: client %d not live after its announcement' % cid)
                tag = req[0]['tag']
                X, Y = tag.split('_', 1)
                try:
                    xi, yi = int(X, 16), int(Y, 16)
                except ValueError:
                    return n        # a tree with another tag format: these forms do not apply
                forms = ['+%s_%s' % (X, Y), '%s_+%s' % (X, Y), '+%s_+%s' % (X, Y), '0x%s_%s' % (X, Y), '%s_0x%s' % (X, Y), '0X%s_0X%s' % (X, Y),
                         '%s_-%x' % (X, (1 << 64) - yi), '%s_-%x' % (X, (1 << 32) - yi), '-%x_%s' % ((1 << 32) - xi, Y) if xi else '-0_%s' % Y,
                         '-%x_%s' % ((1 << 64) - xi, Y) if xi else '-00_%s' % Y, '%s_%s_' % (X, Y), '%s__%s' % (X, Y)]
                if xi == 0:
                    forms += ['_%s' % Y, '+_%s' % Y, '-_%s' % Y, '0x_%s' % Y]
                cands = []
                for f in forms:
                    cands.append(('L', '-1 X login.svc %s :NO stale refusal\n' % f))
                    cands.append(('L', '-1 X login.svc %s :OK stale:1\n' % f))
                hd2, bad, res = srv.expand(hist, cands, e1.F_DUMP)
                base_dump = psearch.canon_dump(hd2, True, True)
                for k, r in enumerate(res):
                    n += 1
                    f = forms[k // 2]
                    changed = r.status == 'ok' and r.dump is not None and psearch.canon_dump(r.dump, True, True) != base_dump
                    if r.status != 'ok' or r.out or changed:
                        run.violation('C04.tag-form', 'a %s reply tagged %r - not the tag %r the daemon sent for client %d - produced %r (%s)%s' % (('NO', 'OK')[k % 2], f, tag, cid, r.out, r.status, ' and changed the state' if changed else ''),
                                      {'engine': 'E1-sweep', 'conf': conf, 'client': cid, 'nth': nth, 'form': f}, dedup='tagform|' + f.replace(X, 'X').replace(Y, 'Y'))
    return n


# ---- replay of a recorded violation -------------------------------------------------------------------
def replay(obj):
    r = obj['replay']
    b = build.build()
    eng = r.get('engine')
    if eng == 'E1-sweep' and 'form' in r:
        cid, nth, form = r['client'], r['nth'], r['form']
        with e1.Server(r['conf'], builddir=b) as srv:
            C = '%d C 10.0.0.1 1111 10.9.9.9 6667\n' % cid
            hist = ([('L', (C + '%d D\n' % cid) * (nth - 1))] if nth > 1 else []) + [('L', C), ('L', '%d P :+x acctA passA\n' % cid)]
            hit = 0
            for what in ('NO stale refusal', 'OK stale:1'):
                line = '-1 X login.svc %s :%s\n' % (form, what)
                res, status, err, ex = srv.trace(hist + [('L', line)], 0)
                print('%-50r -> %s %r' % (line, status, res[-1].out if res else None))
                hit |= bool(status != 'ok' or (res and res[-1].out))
        print(obj['what'])
        print('REPRODUCED' if hit else 'not reproduced')
        return 1 if hit else 0
    if eng == 'E1-trace' and 'lines' in r and 'variant' not in r:
        with e1.Server(r['conf'], builddir=b) as srv:
            evs = [('L', l + '\n') for l in r.get('context', [])] + [('L', l if l.endswith('\n') else l + '\n') for l in r['lines']]
            res, status, err, ex = srv.trace(evs, 0)
            for e, x in zip(evs, res):
                print('%-60r -> %r' % (e[1], x.out))
            print('status:', status, (err.strip().splitlines() or [''])[0][:200])
        print(obj['what'])
        return 1
    if eng in ('E1-sweep', 'E3', 'E1-direct') or (eng and eng not in ('E1', 'E1-merge')):
        print(obj['what'])
        print(json.dumps({k: v for k, v in r.items() if k not in ('conf', 'stderr')}, indent=1)[:3000])
        print('(deterministic enumeration: re-run `bin/check %s quick` to reproduce; the configuration used is in the replay file)' % obj.get('property', ''))
        return 1
    if r.get('engine') == 'E1-merge':
        with e1.Server(r['conf'], builddir=b) as srv:
            ser = r['serial_b']
            ctx = {'cur': {r['id']: ser + 1}, 'old': {}, 'serial': ser}
            conc = [proto.render(tuple(e), ctx) for e in r['suffix']]
            hist = [tuple(h) for h in r['hist_b']]
            res, status, err, ex = srv.trace(hist + conc, 0)
            for c, x in zip(hist + conc, res):
                print('%-60r -> %r' % (c[1] if len(c) > 1 else c[0], x.out))
        print(obj['what'])
        return 1
    conf = e1.conf_text(os.path.join(b, 'mods-wrapped'), services=[tuple(x) for x in r['services']], timeout=r['timeout'],
                        rules=[(n, kv) for n, kv in r['rules']])
    evs = [tuple(e) for e in r['events']]
    syms = [_tup(e) for e in r['symbolic_raw']]
    for path, text in (r.get('reload_files') or {}).items():
        os.makedirs(os.path.dirname(path), exist_ok=True)
        with open(path, 'w') as f:
            f.write(text)
    srv = e1.Server(conf, builddir=b)
    w = proto.World([tuple(x) for x in r['services']], [(n, kv) for n, kv in r['rules']], srv.banner, r['timeout'])
    worlds = psearch.make_worlds({'services': [tuple(x) for x in r['services']], 'rules': [(n, kv) for n, kv in r['rules']], 'timeout': r['timeout'],
                                  'reload_tables': {p: [tuple(x) for x in t] for p, t in (r.get('reload_tables') or {}).items()}}, srv.banner)
    if worlds:
        w = worlds[None]
    M = proto.initial_M(r['ids'])
    old = {}
    hit = False
    try:
        for n in range(len(evs)):
            hd, bad, res = srv.expand(evs[:n], [evs[n]], e1.F_DUMP | e1.F_STATS)
            ctx = psearch.ctx_from(hd, old)
            x = res[0]
            print('%-40s -> %s %r' % (proto.ev_str(syms[n]), x.status, x.out))
            if x.status != 'ok' or x.dump is None:
                print('   daemon terminated: %s\n%s' % (x.status, x.err[-1500:]))
                hit = True
                break
            M, V, W = proto.step(w, M, syms[n], ctx, ctx['serial'] + 1, x.out)
            if syms[n][0] == 'RL' and syms[n][1] in worlds:
                M = proto.reload_step(M, w, worlds[syms[n][1]])
                w = worlds[syms[n][1]]
            ncur = {d['id']: d['serial'] for d in x.dump if d['t'] == 'req'}
            for j, s in ctx['cur'].items():
                if ncur.get(j) != s:
                    old[j] = s
            for tag, text in V:
                print('   !! %s: %s' % (tag, text))
                if tag == r.get('clause'):
                    hit = True
    finally:
        srv.close()
    print('REPRODUCED' if hit else 'not reproduced by the observer clauses (state-form clauses C04/C10 are evaluated by the search)')
    return 1 if hit else 0


def _tup(e):
    return tuple(e)
