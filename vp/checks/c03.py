"""C03 - no stuck clients: the verdict comes as soon as it can (DESIGN 5/C03).
The liveness statement is checked as a safety property of every reachable state: a live client whose
conditions are all met at the end of a step must have received its verdict in that step.  A daemon that
dies on a well-formed history leaves every live client waiting, so crashes are violations here too."""
from . import pcommon
NEED = ('reply-after-timeout', 'second-stamp', 'challenge-answer', 'timeout-fired', 'password-bang', 'accept-D', 'accept-R')

def plan(tier):
    return [pcommon.reload_search(tier, 'refuse')] + pcommon.plan_solo(tier) + [pcommon.reload_search(tier)]      # incl. reloads of the service table while the client waits

def main(tier):
    return pcommon.run_plan('C03', tier, plan(tier), ('C03.',), NEED, crash_is_violation=True)

replay = pcommon.replay
