"""C03 - no stuck clients: the verdict comes as soon as it can (DESIGN 5/C03).
The liveness statement is checked as a safety property of every reachable state: a live client whose
conditions are all met at the end of a step must have received its verdict in that step.  A daemon that
dies on a well-formed history leaves every live client waiting, so crashes are violations here too."""
from . import pcommon
NEED = ('reply-after-timeout', 'second-stamp', 'challenge-answer', 'timeout-fired', 'password-bang', 'accept-D', 'accept-R')

def plan(tier):
    return [pcommon.reload_search(tier, 'refuse')] + pcommon.plan_solo(tier) + [pcommon.reload_search(tier)]      # incl. reloads of the service table while the client waits

def reloaded_timeout(run):
    """The unmodified daemon, real timers: started with a 30 s request timeout (one client arrives and leaves under it), then the file is rewritten with a
    1 s timeout and SIGUSR1 is sent; a client that completes afterwards and whose query is never answered must get its verdict from the NEW timeout -
    within 8 s, generously - not from whatever was in force when the first timer was made.  Likewise none -> 1 s."""
    import signal, time
    from .. import build, e3, common
    b = build.build()
    services = pcommon.G['drone']
    n = 0
    for first in (30, 0):
        mk = lambda t: e3.plain_conf(b, services=services, timeout=t, rules=pcommon.rules_for(services))
        d = e3.Daemon(mk(first), b=b)
        try:
            if not d.wait_banner():
                raise common.HarnessError('E3 daemon did not start')
            d.write(b'30 C 10.0.3.1 4030 10.9.9.9 6667\n30 H\n30 D\n')
            time.sleep(0.2)
            d.publish(mk(1))
            d.signal(signal.SIGUSR1)
            time.sleep(0.7)
            t0 = time.time()
            d.write(b'31 C 10.0.3.2 4031 10.9.9.9 6667\n31 N h.example.net\n31 u ident\n31 n nick\n31 U user :Real Name\n')
            got = d.wait_for(lambda o: b'\nD 31 ' in (b'\n' + o), 8)
            dt = time.time() - t0
            rc, out, err = d.close(10)
        except Exception:
            d.close(5)
            raise
        n += 1
        if not got:
            run.violation('C03.stuck-after-timeout', '[E3 real timer] started with timeout %s, reloaded (SIGUSR1) with timeout 1 s: a complete client whose query is never answered had no verdict 8 s later (output: %r)'
                          % (first or 'none', [l for l in out if ' 31 ' in l][:4]), {'engine': 'E3', 'conf': mk(first), 'first_timeout': first}, dedup='reloaded-timeout')
    return {'reloaded_timeout_runs': n}


def main(tier):
    return pcommon.run_plan('C03', tier, plan(tier), ('C03.',), NEED, crash_is_violation=True, extra_cov=reloaded_timeout)

replay = pcommon.replay
