"""C14 - config parsing is total and a failed load changes nothing (DESIGN 5/C14).

Engine E2 "conf" (harness/e2_conf.c): the real conf_read() is called on every candidate byte string on top of every
prior state.  Candidates are loaded one after another in one process for as long as they fail: after each failure
the complete dump of the live tree must be byte-identical to the dump before and no hook may have run; a success
ends that process and a fresh fork of the prior state carries on.  Crashes, sanitizer reports and hangs are
violations.  Candidate sets (each enumerated completely):
  1. every string of <= L tokens over a 15-token alphabet (names, quoted strings with escapes, brackets, separators,
     comments, a lone quote)
  2. every byte string of <= 4/5 bytes over 14 bytes; every string of <= 4/5 tokens over a second alphabet of
     escapes cut short, comment edge cases and values for the registered integer
  3. every truncation (crash point of the editor: file cut at every byte) and every single-byte substitution by each
     of 13 bytes, of six valid files (the shipped test/coverage/example files and two generated ones)
"""
import os, json, binascii
from .. import common, build, conf as C

REG_ALL = [('G', 'r'), C.reg_string('a', 'd'), C.reg_string('n', '5', 2), C.reg_list('b', 'd1', 'd2'), C.reg_inaddr('h', 'dh', 'ds'),
           C.reg_object('o'), C.reg_string('o/x', 'dx'), C.reg_object('o/p'), C.reg_string('o/p/z', None), C.reg_object('e')]      # 'e': a registered section without children
F0 = b'a one\nb (u, v)\nh host 80\nn 7\no {\n x 1\n p {\n  z 2\n }\n q extra\n}\nc unreg\n'
F1 = b'a two\no {\n x 1\n}\n'

PRIORS = [
    ('empty', []),
    ('registered-only', REG_ALL),
    ('file-only', [C.load(F0)]),
    ('registered+file', REG_ALL + [C.load(F0)]),
    ('registered+file+second-file', REG_ALL + [C.load(F0), C.load(F1)]),
    ('file-then-registered', [C.load(F0)] + REG_ALL),
]

TOKENS = [b'a', b'b', b'"q s"', b'"\\x41\\n"', b'(', b')', b'{', b'}', b',', b';', b'\n', b' ', b'/*c*/', b'//c\n', b'"']
TOKENS2 = [b'a', b'"\\x4"', b'"\\x"', b'"\\"', b'/**/', b'/***/', b'/*', b'*/', b'/', b'\n', b'n', b' 7', b' x7', b'{', b'}', b'(', b')', b',']      # escapes cut short, comment edge cases, the registered integer n
BYTES = [b'a', b'"', b'\\', b'x', b'4', b'/', b'*', b'{', b'}', b'(', b',', b';', b'\n', b'\0']
SUBST = [b'"', b'\\', b'{', b'}', b'(', b')', b',', b';', b'/', b'*', b'\0', b'\n', b'a']

G1 = b'''s plain
q "quoted \\"string\\" with \\x41 escapes\\n"
l1 (one, two, "three 3")
l2 alpha, beta, gamma;
e ()
h "::1" 8080
o {
    x 1; y 2
    inner {
        z (p, q)
        deep {
            w "v"
        }
    }
}
s again
'''
G2 = b'''/* leading comment */ a /* mid */ b // trailing
// only a comment line
o { // after brace
  k v; /* c */ k2 v2;
  l ( a , b ) ;
}
o {
  k other
}
n 321
e {
  k v; k2 v2; k3 (a, b)
}
h "::1" 8080
h "host.example" "http"
l2 (one, two)
l2 (one)
s first
s second
'''


def valid_files():
    fs = []
    for rel in ('tests/unit-tests.conf', 'tests/coverage-1.conf', 'tests/coverage-2.conf', 'doc/iauthd-c.conf.example'):
        try:
            with open(os.path.join(common.REPO, rel), 'rb') as f:
                fs.append((rel, f.read()))
        except OSError:
            pass
    fs.append(('generated-1', G1))
    fs.append(('generated-2', G2))
    return fs


def page_sized(files):
    """Files whose size is at, just below and just above a multiple of the page size (whatever reads the file in pages, or maps it, has its boundary there):
    a valid file padded with a comment, blanks or newlines, the same cut short inside the padding, and junk of exactly that size."""
    out = []
    base = files[0][1]
    for size in (4095, 4096, 4097, 8191, 8192, 8193, 12288, 16384, 65536):
        pad = size - len(base)
        if pad < 8:
            continue
        out.append(base + b'/*' + b'c' * (pad - 5) + b'*/\n')          # valid, comment padding
        out.append(base + b' ' * (pad - 1) + b'\n')                     # valid, blank padding
        out.append(base + b'\n' * pad)                                  # valid, newline padding
        out.append(base + b'//' + b'c' * (pad - 2))                      # valid: ends inside a line comment, no final newline
        out.append(base + b'/*' + b'c' * (pad - 2))                      # invalid: unterminated block comment
        out.append(base + b'x "' + b'v' * (pad - 3))                     # invalid: unterminated string
        out.append(base + b' ' * (pad - 1) + b'{')                       # invalid: stray brace as the very last byte
        out.append(b'a' * size)                                           # one bare word of exactly that size
        out.append(b'"' + b'q' * (size - 2) + b'"')                       # one quoted word
    return out


def mutations(data, what):
    out = []
    if what in ('trunc', 'both'):
        out += [data[:i] for i in range(len(data))]
    if what in ('subst', 'both'):
        for i in range(len(data)):
            for s in SUBST:
                if data[i:i + 1] != s:
                    m = data[:i] + s + data[i + 1:]
                    if b'file:/' in m:
                        continue     # would make the log layer create files outside the scratch directory
                    out.append(m)
    return out


def _task(srv, t):
    kind = t[0]
    hist = PRIORS[t[1]][1]
    if kind == 'tok':
        _, pi, toks, maxlen, k, n = t
        r = srv.sweep_tokens(hist, toks, maxlen, k, n)
    else:
        _, pi, blobs = t
        r = srv.sweep_list(hist, blobs)
    r['task'] = (kind, t[1])
    return r


def main(tier):
    run = common.Run('C14', 'fault_enumeration', tier)
    try:
        b = build.build()
    except RuntimeError as e:
        raise common.HarnessError(str(e))
    quick = run.tier == 'quick'
    files = valid_files()
    tasks = []
    NP = 32
    plan = []
    for pi, (pname, hist) in enumerate(PRIORS):
        L = (5 if pi == 3 else 4) if quick else (6 if pi == 3 else 5)
        for k in range(NP):
            tasks.append(('tok', pi, TOKENS, L, k, NP))
        plan.append('tokens<=%d on %s' % (L, pname))
        for k in range(8):
            tasks.append(('tok', pi, BYTES, 5 if pi == 3 or not quick else 4, k, 8))
        for k in range(4):
            tasks.append(('tok', pi, TOKENS2, (4 if pi in (3, 4) else 3) if quick else 5, k, 4))
        for fname, data in files:
            what = 'both' if (not quick or pi in (3, 4)) else 'trunc'
            muts = mutations(data, what)
            for i in range(0, len(muts), 1500):
                tasks.append(('list', pi, muts[i:i + 1500]))
    # the valid files themselves must load (vacuity guard for set 3)
    with C.Server(b) as s:
        h, res = s.expand([], [C.load(d) for _, d in files])
        nvalid = sum(1 for r in res if r.get('status') == 'ok' and r.get('rc') == 0)
    tot = {'total': 0, 'fail': 0, 'ok': 0, 'viol': 0, 'fatal_exit': 0, 'diff_checked': 0}
    rc_hist = [0] * 8
    ubsan = {}
    per_kind = {}
    samples = []
    with C.Pool(b, 16) as pool:
        # long tasks first
        tasks.sort(key=lambda t: -(len(t[2]) ** t[3] // t[5] if t[0] == 'tok' else len(t[2]) * 3))
        tasks[:0] = [('list', pi, page_sized(files)) for pi in range(len(PRIORS))]      # cheap, and first
        for r in pool.imap(_task, tasks):
            if 'harness_error' in r:
                raise common.HarnessError(r['harness_error'])
            if 'driver_died' in r:
                e = r['driver_died']
                prior = PRIORS[r['task'][1]][0]
                run.violation('C14.died/prior-state', 'building the prior state %s (registrations and loads of VALID files) ended with %s: %s' % (prior, e.get('end'), (e.get('stderr') or '').strip().splitlines()[:2]),
                              {'engine': 'conf', 'prior': r['task'][1], 'input_hex': '', 'detail': e}, dedup='prior-died|' + prior)
                continue
            s = r['summary']
            for k in tot:
                tot[k] += s[k]
            rc_hist = [x + y for x, y in zip(rc_hist, s['rc_hist'])]
            pk = '%s/%s' % (r['task'][0], PRIORS[r['task'][1]][0])
            d = per_kind.setdefault(pk, {'candidates': 0, 'failed_loads': 0, 'successful_loads': 0})
            d['candidates'] += s['total']; d['failed_loads'] += s['fail']; d['successful_loads'] += s['ok']
            for u in r['ubsan']:
                ubsan[u] = ubsan.get(u, 0) + 1
            for v in r['violations']:
                inp = binascii.unhexlify(v['input'])
                prior = PRIORS[r['task'][1]][0]
                if v['kind'] == 'corrupt-tree':
                    cls = 'C14.corrupt-tree'
                    what = 'conf_read() of %r succeeds on prior state %s but leaves a structurally broken live tree (child list that does not end / child with a foreign parent)' % (inp[:80], prior)
                elif v['kind'] == 'after-failed-loads':
                    cls = 'C14.failed-load-left-traces'
                    what = 'conf_read() of %r succeeds on prior state %s, but after %d rejected load(s) in the same process (first: %r) it produces a different tree than in a fresh process' % (
                        inp[:80], prior, v.get('failed_before', 0), binascii.unhexlify(v.get('first_failed', ''))[:60])
                elif v['kind'] == 'died':
                    cls = 'C14.died/' + ('asan' if 'Sanitizer' in v.get('stderr', '') else v.get('status', '?'))
                    what = 'conf_read() of %r on prior state %s: process %s: %s' % (inp[:80], prior, v.get('status'), (v.get('stderr', '').strip().splitlines() or [''])[0][:160])
                else:
                    cls = 'C14.' + v['kind']
                    what = 'conf_read() of %r failed (rc=%s) on prior state %s but %s (hooks run: %s)' % (
                        inp[:80], v.get('rc'), prior, 'the live tree changed' if v['kind'] == 'state-changed' else 'a change hook ran', v.get('hooks', '').split())
                run.violation(cls, what, {'engine': 'conf', 'prior': r['task'][1], 'input_hex': v['input'], 'detail': {k: v[k] for k in v if k not in ('input',)}},
                              dedup=cls + '|' + prior + '|' + v['kind'])
            if run.too_many(50):
                break
            if run.out_of_time(15):
                run.cap('deadline: %d of %d candidate sets were swept' % (sum(d['candidates'] > 0 for d in per_kind.values()), len(tasks)))
                pool.pool.terminate()
                break
    if nvalid < len(files):
        run.note('only %d of the %d "valid" files load on this tree (the others cannot contribute successful mutations)' % (nvalid, len(files)))
    if (tot['fail'] < 10000 or tot['ok'] < 1000) and not run.violations and not run.capped:
        raise common.HarnessError('vacuous: %s' % tot)
    cov = {'evaluations': tot['total'], 'distinct_nontrivial': tot['fail'],
           'rule': 'every candidate is a distinct (prior state, byte string) pair; non-trivial = conf_read() reported an error, so the no-change clause was evaluated on it '
                   '(complete dump of the live tree compared before/after, hook log empty); the others loaded successfully (totality + sanitizer only)',
           'samples': [t.decode('latin-1') for t in TOKENS] + ['<every prefix and every 1-byte substitution of %s>' % f for f, _ in files],
           'exhaustive': True, 'successful_loads': tot['ok'], 'failed_loads_checked_for_no_change': tot['fail'],
           'terminated_by_LOG_FATAL_of_a_hook': tot['fatal_exit'], 'successful_loads_after_failures_compared_with_fresh_process': tot['diff_checked'], 'return_code_histogram': {str(-i): n for i, n in enumerate(rc_hist)},
           'prior_states': [p for p, _ in PRIORS], 'valid_files_loading': nvalid, 'per_set': per_kind, 'ubsan_reports_logged': ubsan,
           'token_alphabet': [t.decode('latin-1') for t in TOKENS], 'byte_alphabet': [x.decode('latin-1') for x in BYTES],
           'explanation': 'LeakSanitizer is off: memory a failed parse leaks is not a memory error in the sense of the statement. A load that makes the log layer '
                          'terminate the process through LOG_FATAL (e.g. a mutated destination type in a logs section) is counted, not judged: conf_read() did not report an error'}
    return run.finish(cov, assumptions=['names/values come from the listed alphabets; files larger than the shipped examples are not enumerated',
                                        'the dump covers every field of every node reachable from the root (name, kind, present/specified bits, value, default, parsed value, list items, host/service, hook, children)'])


def replay(obj):
    r = obj['replay']
    b = build.build()
    inp = binascii.unhexlify(r['input_hex'])
    with C.Server(b) as s:
        h, res = s.expand(PRIORS[r['prior']][1], [C.load(inp)])
    x = res[0]
    print('prior state: %s\ninput: %r\nstatus=%s rc=%s hooks=%s' % (PRIORS[r['prior']][0], inp, x.get('status'), x.get('rc'), x.get('hooks')))
    bad = x.get('status') != 'ok' or (x.get('rc') != 0 and (x.get('dump') != h['dump'] or x.get('hooks')))
    if x.get('status') == 'ok' and x.get('dump') != h['dump']:
        print('before: %s\nafter:  %s' % (json.dumps(h['dump']), json.dumps(x['dump'])))
    if x.get('stderr'):
        print(x['stderr'][-1500:])
    print('REPRODUCED' if bad else 'not reproduced')
    return 1 if bad else 0
