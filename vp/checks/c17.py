"""C17 - a reload reaches the decision modules (DESIGN 5/C17).

Engine E1 with the `reload` event (conf_read() of a file = the body of the SIGUSR1 handler).  For every sequence
of <= 2 (thorough: 3) reloads over a universe of 16 service tables (two names x {absent, login, dronecheck,
login-ipr}) and over a universe of 12 rule tables (rule r1 in {absent, class k1 on account ka*, class k2 on account
kb*, class k1 catch-all, class k1 on account kb*, account ka* without class} x rule r2 in {absent, catch-all k3}), started on every table of the universe, with and without a client that is left
waiting on its queries across the reloads:  after the last reload a suite of probe clients is run (full data +
password answered OK with two different accounts, refused by each service, no password, hurry-up) and everything
the daemon writes - which services it asks, with which query, the verdict and class, the configured entries of
`? config` - must equal what a daemon FRESHLY STARTED on the last file writes for the same probes (differential
oracle, no hand-written expectation).  Additions, removals and in-place changes are all in the universe.
A sample of the sequences is repeated through the unmodified daemon with a rewritten file and a real SIGUSR1.
"""
import itertools, multiprocessing as mp, os, re, signal, time, traceback
from .. import common, build, e1, e3

SNAMES = ['s1.svc', 's2.svc']
STYPES = [None, 'login', 'dronecheck', 'login-ipr']
RNAMES = ['r1', 'r2']
RKINDS = [None, {'class': 'k1', 'account': 'ka*'}, {'class': 'k2', 'account': 'kb*'}, {'class': 'k1'}, {'class': 'k1', 'account': 'kb*'}, {'account': 'ka*'},
          {'class': 'k1', 'account': 'KA*'},       # differs from the first kind in letter case only (globs are case-sensitive: it matches no probe account)
          {'class': 'k1', 'address': '10.9.0.0/16'},   # an address criterion that excludes the probe clients (removing the line must widen the rule)
          {'class': 'k1', 'trust_username': 'yes'}]    # catch-all that upgrades an untrusted ident
ABSENT = 'section-absent'                       # the reloaded file has no iauth_xquery{} / iauth_class{} section at all
R2KINDS = [None, {'class': 'k3'}]          # the second rule: absent or a catch-all that sorts after r1
FIXED_RULES = [('r1', {'class': 'k1', 'account': 'ka*'}), ('r2', {'class': 'k2'})]
FIXED_SERVICES = [('s1.svc', 'login'), ('s2.svc', 'dronecheck')]


# third universe: the service table varies under rules that NAME services (what a rule remembers about a service must not outlive the service);
# here a client is also run to its verdict before every reload, so that whatever the modules cache per rule or per service is warm when the table changes
MIXED_RULES = [('r1', {'class': 'k1', 'xreply_ok': 's1.svc'}), ('r2', {'class': 'k2', 'xreply_ok': 's2.svc'}), ('r3', {'class': 'k3'})]
MIXED_PROBES = ('ok-ka1', 'no-s1', 'nopass')


def tables_universe():
    return {'services': list(itertools.product(STYPES, repeat=2)) + [ABSENT], 'rules': list(itertools.product(RKINDS, R2KINDS)) + [ABSENT],
            'mixed': list(itertools.product([None, 'login'], [None, 'login', 'dronecheck']))}


def exercise(serial):
    """a client (id 5) run to its verdict: every configured service answers OK"""
    tag = '5_%x' % serial
    return ['5 C 10.0.0.5 5555 10.9.9.9 6667', '5 N host5.example.net', '5 u ident5', '5 n Nick5', '5 U user5 :Real Name', '5 P :+x ka5 pw',
            '-1 X s1.svc %s :OK ka5:7' % tag, '-1 X s2.svc %s :OK' % tag, '5 H', '5 D']


def svc_table(t):
    return [] if t == ABSENT else [(n, ty) for n, ty in zip(SNAMES, t) if ty]

def rule_table(t):
    return [] if t == ABSENT else [(n, dict(kv)) for n, kv in zip(RNAMES, t) if kv]

def conf_for(moddir, universe, t, modules=None, logs=None):
    kw = {}
    if modules:
        kw['modules'] = modules
    if logs:
        kw['logs'] = logs
    if universe == 'mixed':
        return e1.conf_text(moddir, services=svc_table(t), timeout=0, rules=MIXED_RULES, **kw)
    if universe == 'services':
        text = e1.conf_text(moddir, services=svc_table(t), timeout=0, rules=FIXED_RULES, **kw)
        return text.replace('iauth_xquery {\n}\n', '') if t == ABSENT else text
    text = e1.conf_text(moddir, services=FIXED_SERVICES, timeout=0, rules=rule_table(t), **kw)
    return text.replace('iauth_class {\n}\n', '') if t == ABSENT else text


def probes(serial):
    tag = '1_%x' % serial
    base = ['1 C 10.0.0.1 1111 10.9.9.9 6667', '1 N host1.example.net', '1 u ident1', '1 n Nick1', '1 U user1 :Real Name']
    cfg = ['-1 ? config']
    P = {}
    for acct in ('ka1', 'kb1'):
        P['ok-' + acct] = base + ['1 P :+x %s pw' % acct, '-1 X s1.svc %s :OK %s:7' % (tag, acct), '-1 X s2.svc %s :OK %s:7' % (tag, acct), '1 H'] + cfg
    P['no-s1'] = base + ['1 P :+x ka1 pw', '-1 X s1.svc %s :NO refused by one' % tag, '-1 X s2.svc %s :OK' % tag, '1 H']
    P['no-s2'] = base + ['1 P :+x ka1 pw', '-1 X s2.svc %s :NO refused by two' % tag, '-1 X s1.svc %s :OK ka1' % tag, '1 H']
    P['nopass'] = base + ['-1 X s1.svc %s :OK' % tag, '-1 X s2.svc %s :OK' % tag, '1 H']
    P['untrusted-ident'] = ['1 C 10.0.0.1 1111 10.9.9.9 6667', '1 N host1.example.net', '1 u ~ident1', '1 n Nick1', '1 U user1 :Real Name', '-1 X s1.svc %s :OK' % tag, '-1 X s2.svc %s :OK' % tag, '1 H']
    P['hurry'] = ['1 C 10.0.0.1 1111 10.9.9.9 6667', '1 P :+x kb1 pw', '1 H', '-1 X s2.svc %s :OK kb1:3' % tag, '-1 X s1.svc %s :OK kb1:3' % tag]
    # account-only visibility demanded: accepted only with a stamp (whatever the table offers for getting one)
    P['bang'] = base + ['1 P :+x! ka1 pw', '1 H', '-1 X s2.svc %s :OK' % tag, '-1 X s1.svc %s :OK' % tag, '-1 X s1.svc %s :OK ka1:7' % tag, '-1 ? stats']
    return P


WAITER = ['9 C 10.0.0.9 9999 10.9.9.9 6667', '9 N host9.example.net', '9 u ident9', '9 n Nick9', '9 U user9 :Real Name', '9 P :+x ka9 pw']
_TAG = re.compile(r'\b([0-9a-f]+)_[0-9a-f]+\b')


def norm(step_lines):
    out = []
    xs = []
    for l in step_lines:
        l = _TAG.sub(r'\1_S', l)
        if l.startswith('X '):
            xs.append(l)
        elif re.match(r'^A \S+ :-', l) or re.match(r'^S ', l):
            continue
        else:
            out.append(l)
    return tuple(sorted(xs)) + tuple(sorted(out) if any(l.startswith('A ') for l in out) else out)


_G = {}


def run_probes(srv, prefix_events, serial, only=None):
    rec = {}
    died = None
    for name, lines in probes(serial).items():
        if only and name not in only:
            continue
        evs = list(prefix_events) + [('L', l + '\n') for l in lines]
        res, status, err, ex = srv.trace(evs)
        if status != 'ok' or len(res) != len(evs):
            died = '%s: %s' % (status, (err.strip().splitlines() or ['?'])[0][:200])
            rec[name] = ('DIED', status)
            continue
        steps = res[len(prefix_events):]
        rec[name] = tuple(norm(r.out) for r in steps)
    return rec, died


def seq_events(srv, universe, pre, serial, seq):
    """events of one reload sequence and the serial the probe client will get; in the 'mixed' universe a client is run to its verdict before every reload"""
    evs = list(pre)
    for i in seq:
        if universe == 'mixed':
            evs += [('L', l + '\n') for l in exercise(serial)]
            serial += 1
        evs.append(('R', srv.path('t%d.conf' % i)))
    return evs, serial


def _group(item):
    """item = (universe, start table index, max reloads, with waiter?) -> results for every sequence from that start"""
    universe, t0i, depth, waiter = item
    try:
        b = _G['b']
        tables = _G['tables'][universe]
        moddir = os.path.join(b, 'mods-wrapped')
        files = {'t%d.conf' % i: conf_for(moddir, universe, t) for i, t in enumerate(tables)}
        srv = e1.Server(conf_for(moddir, universe, tables[t0i]), builddir=b, files=files)
    except Exception:
        return {'harness_error': traceback.format_exc()}
    out = []
    try:
        pre = [('L', l + '\n') for l in WAITER] if waiter else []
        serial = 2 if waiter else 1
        for n in range(1, depth + 1):
            for seq in itertools.product(range(len(tables)), repeat=n):
                evs, ser = seq_events(srv, universe, pre, serial, seq)
                rec, died = run_probes(srv, evs, ser, MIXED_PROBES if universe == 'mixed' else None)
                out.append((seq, rec, died))
    finally:
        srv.close()
    return {'universe': universe, 't0': t0i, 'waiter': waiter, 'results': out}


def _fresh(item):
    universe, ti = item
    try:
        b = _G['b']
        moddir = os.path.join(b, 'mods-wrapped')
        srv = e1.Server(conf_for(moddir, universe, _G['tables'][universe][ti]), builddir=b)
        try:
            rec, died = run_probes(srv, [], 1, MIXED_PROBES if universe == 'mixed' else None)
        finally:
            srv.close()
        return (universe, ti, rec, died)
    except Exception:
        return {'harness_error': traceback.format_exc()}


def edit_kind(universe, prev, last):
    if prev == ABSENT or last == ABSENT:
        return 'same' if prev == last else ('section-removed' if last == ABSENT else 'section-added')
    kinds = set()
    for a, c in zip(prev, last):
        if a == c:
            continue
        kinds.add('add' if a is None else ('remove' if c is None else 'change-in-place'))
    return '+'.join(sorted(kinds)) or 'same'


def tstr(universe, t):
    if t == ABSENT:
        return '<no section in the file>'
    if universe in ('services', 'mixed'):
        return '{%s}' % ', '.join('%s %s' % x for x in svc_table(t))
    return '{%s}' % ', '.join('%s %s' % (n, ' '.join('%s=%s' % kv for kv in sorted(r.items()))) for n, r in rule_table(t))


def e3_sigusr1(run, b, universe, seqs, fresh, symlink=False):
    """The same differential through the unmodified daemon: rewrite the file, send SIGUSR1, run one probe over the real pipe."""
    n = 0
    tables = _G['tables'][universe]
    moddir = os.path.join(b, 'mods-plain')
    mods = ('iauth', 'iauth_xquery', 'iauth_class')
    LOGS = ['"core.info" "file:reload.log"']      # the daemon logs "Re-reading config file due to signal" right before conf_read()
    for t0i, seq in seqs:
        d = e3.Daemon(conf_for(moddir, universe, tables[t0i], modules=mods, logs=LOGS), b=b, symlink=symlink)
        try:
            if not d.wait_banner():
                raise common.HarnessError('E3 daemon did not start')
            logp = os.path.join(d.dir, 'reload.log')
            for k, i in enumerate(seq):
                d.publish(conf_for(moddir, universe, tables[i], modules=mods, logs=LOGS))
                try:
                    size0 = os.path.getsize(logp)
                except OSError:
                    size0 = 0
                d.signal(signal.SIGUSR1)
                # the daemon is single-threaded: once the handler has logged anything, the reload (if it does one) completes before any further input
                # is read.  The pinned handler logs "Re-reading config file"; a handler that logs something else, or nothing within 30 s, is not a
                # harness matter - the probe below then shows whether the new file is in force
                t0 = time.time()
                while True:
                    try:
                        got = os.path.getsize(logp)
                    except OSError:
                        got = 0
                    if got > size0 or time.time() - t0 > 30 or not d.alive():
                        break
                    time.sleep(0.01)
            lines = probes(1)['ok-ka1']
            base = len(d.lines())
            d.write(('\n'.join(lines) + '\n').encode())
            rc, out, err = d.close()
        except Exception:
            d.close()
            raise
        got = norm([l for l in out if not l.startswith('S ')][-200:])
        want_steps = fresh[(universe, seq[-1])]['ok-ka1']
        want = set(l for st in want_steps for l in st)
        have = set(got)
        # every line the fresh daemon writes for the probe must be written after the signalled reloads, and no other verdict/query
        miss = [l for l in want if l not in have and not l.startswith(('A ', 'a'))]
        extra = [l for l in have if (l.startswith('X ') or l[:2] in ('D ', 'R ', 'k ')) and l not in want]
        if rc != 0 or miss or extra:
            run.violation('C17.sigusr1/' + universe, 'after SIGUSR1 reloads %s' % ('(the -f path is a symbolic link that is re-pointed to each new file) ' if symlink else '') + '%s (started on %s) the unmodified daemon answers the probe differently from a fresh start: missing %r, unexpected %r, exit %s'
                          % ([tstr(universe, tables[i]) for i in seq], tstr(universe, tables[t0i]), miss[:3], extra[:3], rc),
                          {'engine': 'E3', 'universe': universe, 't0': t0i, 'seq': list(seq), 'symlink': symlink}, dedup='sig|' + universe + str(symlink))
        n += 1
    return n


def main(tier):
    run = common.Run('C17', 'model_checking', tier)
    try:
        b = build.build()
    except RuntimeError as e:
        raise common.HarnessError(str(e))
    quick = run.tier == 'quick'
    _G['b'] = b
    _G['tables'] = tables_universe()
    depth = 2 if quick else 3
    fresh = {}
    nseq = ntrace = 0
    mism = 0
    with mp.get_context('fork').Pool(16) as pool:
        for r in pool.imap_unordered(_fresh, [(u, i) for u in ('services', 'rules', 'mixed') for i in range(len(_G['tables'][u]))]):
            if isinstance(r, dict):
                raise common.HarnessError(r['harness_error'])
            u, i, rec, died = r
            if died:
                raise common.HarnessError('fresh daemon died on a probe: %s' % died)
            fresh[(u, i)] = rec
        items = [('mixed', t0, 3, w) for w in ((False,) if quick else (False, True)) for t0 in range(len(_G['tables']['mixed']))]
        items += [(u, t0, depth, w) for u in ('services', 'rules') for w in (False, True) for t0 in range(len(_G['tables'][u]))]
        for g in pool.imap_unordered(_group, items):
            if 'harness_error' in g:
                raise common.HarnessError(g['harness_error'])
            if run.out_of_time(30):
                run.cap('deadline: not every start table was explored')
                pool.terminate()
                break
            u, t0, w = g['universe'], g['t0'], g['waiter']
            tables = _G['tables'][u]
            for seq, rec, died in g['results']:
                nseq += 1
                ntrace += len(rec)
                want = fresh[(u, seq[-1])]
                prev = tables[seq[-2]] if len(seq) > 1 else tables[t0]
                ek = edit_kind(u, prev, tables[seq[-1]])
                hist = 'start %s%s | %s' % (tstr(u, tables[t0]), ' + waiting client' if w else '', ' | '.join(('client run to its verdict, ' if u == 'mixed' else '') + 'reload ' + tstr(u, tables[i]) for i in seq))
                if died:
                    run.violation('C17.died/' + u, 'the daemon died on a probe after %s: %s' % (hist, died), {'engine': 'E1', 'universe': u, 't0': t0, 'seq': list(seq), 'waiter': w}, dedup='died|' + u + ek)
                    continue
                for pname in want:
                    if rec.get(pname) != want[pname]:
                        mism += 1
                        # first differing step
                        a, c = rec.get(pname), want[pname]
                        k = next((i for i in range(min(len(a), len(c))) if a[i] != c[i]), min(len(a), len(c)))
                        step = probes(1)[pname][k] if k < len(probes(1)[pname]) else '?'
                        run.violation('C17.%s/%s' % (u, ek), 'probe %s, step "%s": reloaded daemon writes %r, a daemon freshly started on the last file writes %r  (%s)'
                                      % (pname, step, list(a[k]) if k < len(a) else None, list(c[k]) if k < len(c) else None, hist),
                                      {'engine': 'E1', 'universe': u, 't0': t0, 'seq': list(seq), 'waiter': w, 'probe': pname}, dedup=u + '|' + ek + ('|w' if w else ''))
                        break
    # SIGUSR1 through the unmodified daemon (sample)
    nsig = 0
    if not run.out_of_time(60):
        sample = []
        for u in ('services', 'rules'):
            nt = len(_G['tables'][u])
            seqs = [(t0 % nt, (a % nt,)) for t0 in (0, 5, 10, 15) for a in (1, 6, 11)] + [(t0 % nt, (a % nt, c % nt)) for t0 in (3, 12) for a in (9, 14) for c in (2, 5, 7)]
            if not quick:
                seqs += [(t0, (a, c)) for t0 in range(0, nt, 3) for a in range(1, nt, 4) for c in range(2, nt, 5)]
            nsig += e3_sigusr1(run, b, u, seqs, fresh)
            nsig += e3_sigusr1(run, b, u, seqs[:6], fresh, symlink=True)       # the configuration published by re-pointing a symbolic link
    if nseq < 500 and not run.violations and not run.capped:
        raise common.HarnessError('vacuous: %d sequences' % nseq)
    distinct_fresh = len({repr(sorted(v.items())) for v in fresh.values()})
    if distinct_fresh < 10 and not run.violations and not run.capped:
        raise common.HarnessError('vacuous: the probes distinguish only %d of the tables' % distinct_fresh)
    cov = {'states': nseq, 'transitions': ntrace, 'traces_validated_against_impl': ntrace + nsig,
           'samples': [['start ' + tstr('services', _G['tables']['services'][5]), 'reload ' + tstr('services', _G['tables']['services'][9]), 'probe ok-ka1: ' + ' | '.join(probes(1)['ok-ka1'])],
                       ['start ' + tstr('rules', _G['tables']['rules'][1]), 'reload ' + tstr('rules', _G['tables']['rules'][2]), 'probe ok-kb1']],
           'exhaustive': not run.capped, 'reload_depth': depth, 'tables_per_universe': {u: len(t) for u, t in _G['tables'].items()}, 'probes': list(probes(1)), 'probe_mismatches': mism,
           'distinct_fresh_behaviours_of_the_tables': distinct_fresh, 'sigusr1_sequences_through_unmodified_daemon': nsig,
           'explanation': 'a state is the module state reached by (start table, reload sequence, waiting client or not); every one is reached on the real daemon and probed; transitions = probe '
                          'conversations run; the oracle is the same daemon freshly started on the last file (32 fresh references)'}
    return run.finish(cov, assumptions=['the order of two queries written in one step and the order of entries in the ? config report are not compared (service slots legitimately differ)',
                                        'statistics counters are not compared'])


def replay(obj):
    r = obj['replay']
    b = build.build()
    _G['b'] = b
    _G['tables'] = tables_universe()
    u = r['universe']
    tables = _G['tables'][u]
    moddir = os.path.join(b, 'mods-wrapped')
    files = {'t%d.conf' % i: conf_for(moddir, u, t) for i, t in enumerate(tables)}
    with e1.Server(conf_for(moddir, u, tables[r['t0']]), builddir=b, files=files) as srv:
        pre, ser = seq_events(srv, u, [('L', l + '\n') for l in WAITER] if r.get('waiter') else [], 2 if r.get('waiter') else 1, r['seq'])
        rec, died = run_probes(srv, pre, ser, MIXED_PROBES if u == 'mixed' else None)
    with e1.Server(conf_for(moddir, u, tables[r['seq'][-1]]), builddir=b) as srv:
        want, _ = run_probes(srv, [], 1, MIXED_PROBES if u == 'mixed' else None)
    bad = 0
    for p in want:
        if rec.get(p) != want[p]:
            bad = 1
            print('probe %s\n  reloaded: %s\n  fresh:    %s' % (p, rec.get(p), want[p]))
    print('REPRODUCED' if bad or died else 'not reproduced')
    return 1 if bad or died else 0
