"""C12 - address text round-trips for every address (DESIGN 5/C12).

Exhaustive over the abstraction that drives the printer: every combination of eight groups drawn from
{0, 1-, 2-, 3-, 4-digit values, 0xffff} (6^8 = 1 679 616 addresses; thorough: 9^8 = 43 046 721), all
IPv4-mapped / IPv4-compatible addresses over boundary octets, boundary forms of the IPv4 predicate.
Oracles per address: length / buffer, no leading ':', own parser and libc parser both accept the text and
read the same address, idempotence of parse-print over alternative spellings."""
from .. import common, build, e2

def main(tier):
    run = common.Run('C12', 'exploration', tier)
    try:
        b = build.build()
    except RuntimeError as e:
        raise common.HarnessError(str(e))
    nparts = 16
    mode = 't' if run.tier == 'thorough' else 'q'
    res = e2.run_parts(b, lambda k, n: ['addr', 'ntop', mode, k, n], nparts, timeout=run.deadline_s)
    summ = []
    ub = 0
    for rc, viols, s, err in res:
        ub += err.count('runtime error:')
        if not s:
            run.violation('ntop/crash', 'the enumeration died (rc=%s): %s' % (rc, err.strip().splitlines()[:3]), {'engine': 'core_vh addr ntop', 'stderr': err[-3000:]})
            continue
        summ += s
        for v in viols:
            run.violation(v['class'], v['detail'], {'engine': 'core_vh addr ntop', 'detail': v['detail']}, dedup=v['class'] + v['detail'][:40])
        if rc not in (0,) and not viols:
            run.violation('ntop/sanitizer', 'sanitizer report: %s' % err.strip().splitlines()[:3], {'engine': 'core_vh addr ntop', 'stderr': err[-3000:]})
    tot = e2.merge_counts(summ)
    n = int(tot.get('addresses', 0))
    if n < 1000000 and not run.violations and not run.capped:
        raise common.HarnessError('vacuous: only %d addresses enumerated' % n)
    cov = {'evaluations': n, 'distinct_nontrivial': int(tot.get('abstraction_points', 0)),
           'rule': 'every 8-tuple of group values from %s plus 2x7^4 IPv4-mapped/-compatible addresses and 11 boundary forms; every enumerated address is distinct; '
                   'non-trivial = a point of the digit-count abstraction (all of them reach the zero-run / digit printing code)' % ('{0,1,0xf,0x10,0xff,0x100,0xfff,0x1000,0xffff}' if mode == 't' else '{0,1,0x10,0x100,0x1000,0xffff}'),
           'samples': ['0:0:a:0:b:0:0:0 (two zero runs)', '0:1:1:1:1:1:1:1 (single leading zero group)', '::ffff:1.2.3.4', '::1.2.3.4 (IPv4-compatible)', 'ffff:ffff:ffff:ffff:ffff:ffff:ffff:ffff (39 characters)'],
           'exhaustive': True, 'idempotence_strings': int(tot.get('idempotence_strings', 0)), 'violation_counts': tot.get('classes', {}), 'ubsan_reports_logged': ub,
           'explanation': '"plus random values" of the property statement is deliberately not used: sampling decides nothing here; the abstraction argument is that two addresses with '
                          'the same per-group digit-count vector take the same path through irc_ntop'}
    return run.finish(cov, assumptions=['a defect that depends on a specific group value other than a digit-count boundary would be missed', 'glibc inet_pton / inet_ntop are the reference for "standard library parser"'])

def replay(obj):
    print(obj['what'])
    print('re-run: bin/check C12 quick (deterministic enumeration; the failing address is in the text above)')
    return main('quick')
