"""C10 - request bookkeeping balances over any history (DESIGN 5/C10).

In every reachable state of the closed searches: the daemon's own `? stats` "in use" figure and its request
table size equal the number of clients announced and not finished (observer count); libevent's timer heap
holds exactly one request timer per live instance whose timer has not fired (none when no timeout is
configured) and none that belongs to a finished request; and end of input after *every* explored
transition (crash point = EOF after any history) leads through the real main() exit path to exit status 0
with the same number of heap bytes still allocated as after the empty history.  LeakSanitizer re-checks a
sample of the states; real one-second timers and a 5000-client run go through the unmodified daemon."""
import os, re, threading, time
from concurrent.futures import ThreadPoolExecutor
from . import pcommon
from .. import common, e1, e3, alpha, proto, psearch

NEED = ('reannounce-live', 'withdraw-live', 'registered-live', 'timeout-fired', 'accept-D', 'reject', 'withdraw-while-owed')
FLAGS = e1.F_DUMP | e1.F_STATS | e1.F_EOF

def plan(tier):
    S = pcommon.S
    if tier == 'quick':
        return [S('solo/hurry/login+drone/t30', 'login+drone', 30, [1], alpha.scen_hurry([1]), flags=FLAGS),
                S('solo/hurry/drone/t0', 'drone', 0, [1], alpha.scen_hurry([1]), flags=FLAGS),
                S('pair/tiny/ids-0-and-INT_MAX/t30', 'login+drone', 30, [0, 2147483647], alpha.tiny([0, 2147483647]), flags=FLAGS),    # boundary ids incl. the legal id 0
                pcommon.reload_search(tier, 'timeout')]     # the timeout setting itself reloaded while a client waits
    p = []
    for g in ('login+drone', 'drone', 'ipr+comb', 'all4', 'none'):
        for t in (30, 0):
            p.append(S('solo/hurry/%s/t%d' % (g, t), g, t, [1], alpha.scen_hurry([1], pbudget=3), flags=FLAGS))
    p.append(S('solo/orders/login+drone/t30', 'login+drone', 30, [1], alpha.scen_orders([1]), flags=FLAGS))
    p.append(S('pair/tiny/login+drone/t30', 'login+drone', 30, [1, 2], alpha.tiny([1, 2]), flags=FLAGS))
    p.append(S('pair/tiny/extreme-ids/t30', 'login+drone', 30, [2147483647, -2147483648], alpha.tiny([2147483647, -2147483648]), flags=FLAGS))
    p.append(S('triple/tiny/login+drone/t30', 'login+drone', 30, [1, 2, 3], alpha.tiny([1, 2, 3]), flags=FLAGS, maxdepth=7))
    p.append(pcommon.reload_search(tier, 'timeout'))
    return p

STATE = {'eof_probes': 0, 'lsan_probes': 0, 'e3_timer_runs': 0}

def post(tier):
    def fn(run, s, label):
        base = s.eof_baseline
        for sid, info in s.eofs:
            STATE['eof_probes'] += 1
            if info['status'] != 'ok':
                ev, cev = info.get('after'), info.get('cev')
                run.violation('C10.eof-exit', '[%s] end of input after %s | %s did not lead to a clean exit: %s' % (label, ' | '.join(proto.ev_str(e) for e in s.sym_history(sid)) or '-', proto.ev_str(ev) if ev else '', info['status']),
                              s.replay_obj(sid, ev, cev, {'clause': 'C10.eof-exit', 'then': 'eof'}) if ev else {'history': s.history(sid)}, dedup=label + '|eof-exit|' + info['status'])
            elif base and info['exit'] != base:
                ev, cev = info.get('after'), info.get('cev')
                run.violation('C10.eof-leak', '[%s] after end of input following %s | %s the exit path left %s, the empty history leaves %s' % (label, ' | '.join(proto.ev_str(e) for e in s.sym_history(sid)) or '-', proto.ev_str(ev) if ev else '', info['exit'], base),
                              s.replay_obj(sid, ev, cev, {'clause': 'C10.eof-leak', 'then': 'eof'}) if ev else {'history': s.history(sid)}, dedup=label + '|eof-leak')
        # LeakSanitizer on a sample of states (all at depth <= 4, every 10th beyond; thorough: every 3rd)
        step = 10 if tier == 'quick' else 3
        sids = [n for n, st in enumerate(s.states) if st.depth <= 4 or n % step == 0]
        if run.out_of_time(60) or s.reload_paths:      # (the reload targets of a search are gone once it has ended)
            return
        lock = threading.Lock()
        servers = []
        def get():
            with lock:
                if servers:
                    return servers.pop()
            return e1.Server(s.conf, builddir=s.b, lsan=True)
        def one(sid):
            srv = get()
            try:
                res, status, err, ex = srv.trace(s.history(sid) + [('E',)], e1.F_LSAN)
            finally:
                with lock:
                    servers.append(srv)
            return sid, status, err
        with ThreadPoolExecutor(12) as ex:
            for sid, status, err in ex.map(one, sids):
                STATE['lsan_probes'] += 1
                if status != 'ok':
                    run.violation('C10.eof-lsan', '[%s] LeakSanitizer/exit path after %s: %s %s' % (label, ' | '.join(proto.ev_str(e) for e in s.sym_history(sid)) or '-', status, (err.strip().splitlines() or [''])[-1][:200]),
                                  {'engine': 'E1', 'conf': s.conf, 'events': [list(map(psearch._jsonable, c)) for c in s.history(sid)] + [['E']], 'stderr': err[-3000:]}, dedup=label + '|lsan|' + status)
        for srv in servers:
            srv.close()
    return fn

_verdict = re.compile(r'^([DRkK]) (-?\d+) ')

def real_timers(run, b, n_hist):
    """E3: real one-second request timers; keep the input open, then end it."""
    conf = e3.plain_conf(b, services=pcommon.G['login+drone'], timeout=1, rules=pcommon.rules_for(pcommon.G['login+drone']))
    hists = [
        ['1 C 10.0.0.1 1111 10.9.9.9 6667', '1 H'],                                       # waits on dronecheck -> timed out
        ['1 C 10.0.0.1 1111 10.9.9.9 6667', '1 P :+x a b', '1 H', '1 D'],                 # finished before the timer
        ['1 C 10.0.0.1 1111 10.9.9.9 6667', '1 H', '1 C 10.0.0.1 1111 10.9.9.9 6667'],    # replaced while waiting
        ['1 C 10.0.0.1 1111 10.9.9.9 6667', '2 C 10.0.0.2 2222 10.9.9.9 6667', '1 H', '2 H', '1 T'],
        ['1 C 10.0.0.1 1111 10.9.9.9 6667', '1 N h', '1 u i', '1 n n', '1 U u :r', '-1 X drone.svc 1_1 :OK'],  # decided
        ['1 C 10.0.0.1 1111 10.9.9.9 6667', '1 P :+! a b', '1 H', '-1 X drone.svc 1_1 :OK'],                   # hard hold survives the timer
    ][:n_hist]
    def one(h):
        d = e3.Daemon(conf, b=b)
        d.wait_banner()
        d.write(('\n'.join(h) + '\n').encode())
        time.sleep(1.7)
        d.write(b'-1 ? stats\n')
        time.sleep(0.1)
        rc, out, err = d.close()
        return h, rc, out, err
    with ThreadPoolExecutor(8) as ex:
        for h, rc, out, err in ex.map(one, hists):
            STATE['e3_timer_runs'] += 1
            seen = {}
            bad = None
            if rc != 0:
                bad = 'exit status %s' % rc
            if 'ERROR:' in err:
                bad = 'sanitizer report: ' + err.strip().splitlines()[0][:200]
            announced = {}
            for l in h:
                f = l.split()
                if len(f) > 1 and f[1] == 'C':
                    announced[f[0]] = announced.get(f[0], 0) + 1
            for l in out:
                m = _verdict.match(l)
                if m:
                    seen[m.group(2)] = seen.get(m.group(2), 0) + 1
                    if seen[m.group(2)] > announced.get(m.group(2), 0):
                        bad = 'more verdicts than announcements for id %s: %r' % (m.group(2), out)
            if bad:
                run.violation('C10.real-timer', 'real 1 s timers, history %r: %s' % (h, bad), {'engine': 'E3', 'conf': conf, 'lines': h, 'wait_s': 1.7, 'stdout': out, 'stderr': err[-2000:]})

def prefix_eof(run, b):
    """End of input after every byte of a two-client history (inside a line, after a CR, at a line end): the daemon must still leave through its
    clean exit path, with everything released."""
    from .. import tpool
    from . import c08
    services = pcommon.G['login+drone']
    conf = e1.conf_text(os.path.join(b, 'mods-wrapped'), services=services, timeout=30, rules=pcommon.rules_for(services))
    data = (b'1 C 10.0.0.1 1111 10.9.9.9 6667\n1 N host1.example.net\n1 P :+x acct pass\n2 C 10.0.0.2 2222 10.9.9.9 6667\r\n2 H\n1 u ident1\n'
            b'-1 X login.svc 1_1 :OK acct:7\n2 D\r\n1 n Nick1\n1 U user1 :Real Name\n3 C 10.0.0.3 3333 10.9.9.9 6667\n')
    offs = list(range(len(data) + 1))
    n = 0
    with tpool.TracePool(conf, b, n=8) as tp:
        for r in tp.imap(c08._prefix_job, [(0, data, offs[k:k + 12]) for k in range(0, len(offs), 12)], chunksize=1):
            if 'harness_error' in r:
                raise common.HarnessError(r['harness_error'])
            n += r['n']
            for off, status, err in r['bad']:
                run.violation('C10.eof-exit', 'input ends after byte %d (...%r): no clean exit: %s %s' % (off, data[max(0, off - 30):off], status, (err.strip().splitlines() or [''])[-1][:120]),
                              {'engine': 'E1-trace', 'conf': conf, 'bytes': data[:off].decode('latin-1'), 'then': 'eof', 'stderr': err}, dedup='prefix-eof|' + status)
    return n


def long_run(run, b, n):
    """Supplementary: thousands of clients through the unmodified daemon, ids reused; not what decides the property."""
    conf = e3.plain_conf(b, services=pcommon.G['login+drone'], timeout=30, rules=pcommon.rules_for(pcommon.G['login+drone']))
    lines = []
    for k in range(n):
        i = k % 37
        a = '10.1.%d.%d' % (k // 250 % 250, k % 250 + 1)
        lines.append('%d C %s %d 10.9.9.9 6667' % (i, a, 1024 + k % 5000))
        m = k % 5
        if m == 0:
            lines += ['%d H' % i, '%d D' % i]
        elif m == 1:
            lines += ['%d P :+x a b' % i, '%d T' % i]
        elif m == 2:
            lines += ['%d N h' % i, '%d u id' % i, '%d n nn' % i, '%d U u :r' % i]   # stays pending; replaced at next reuse
        elif m == 3:
            lines += ['%d H' % i]
        # m == 4: announced only
    for i in range(37):
        lines.append('%d D' % i)
    lines.append('-1 ? stats')
    rc, out, err, ok = e3.run_stream(conf, [('\n'.join(lines) + '\n').encode()], b=b, timeout=60)
    inuse = None
    for l in out:
        if l.startswith('S iauth :') and 'in use' in l:
            inuse = l
    if rc != 0 or 'ERROR:' in err or not inuse or ', 0 in use' not in inuse:
        run.violation('C10.long-run', '%d clients on 37 reused ids, all withdrawn at the end: rc=%s stats=%r %s' % (n, rc, inuse, err.strip().splitlines()[:1]),
                      {'engine': 'E3', 'conf': conf, 'n_clients': n, 'stderr': err[-2000:], 'stats': inuse})
    return len(lines)

def main(tier):
    def extra(run):
        from .. import build
        b = build.build()
        real_timers(run, b, 6)
        nl = long_run(run, b, 5000)
        npre = prefix_eof(run, b)
        return {'eof_after_every_byte_of_a_history': npre, 'eof_probes_real_exit_path': STATE['eof_probes'], 'lsan_probes': STATE['lsan_probes'], 'e3_real_timer_runs': STATE['e3_timer_runs'],
                'e3_long_run_lines': nl}
    return pcommon.run_plan('C10', tier, plan(tier), ('C10.',), NEED, crash_is_violation=True, post=post(tier), extra_cov=extra)

def replay(obj):
    r = obj['replay']
    if r.get('engine') == 'E1-trace':
        from . import c08
        return c08.replay(obj)
    return pcommon.replay(obj)
