"""C13 - netmask parsing and matching are exact (DESIGN 5/C13).

1. irc_check_mask: every group x every 16-bit difference x every prefix length 0..128 (+129, 200, 2^31),
   two base addresses, plus all pairs of groups with boundary differences: compared with a bit-level reference.
2. irc_pton on EVERY string up to a length bound over the address alphabet {0 1 2 5 9 a f : . / *}, four call
   modes, each input in an exactly-sized heap buffer and results in their own heap blocks under ASan;
   return value <= length; agreement with inet_pton wherever both accept a plain address.
3. grammar-derived CIDR / wildcard texts against a reference parser written from iauth.h's contract.
4. the class-rule address criterion: client just inside / just outside each prefix, through the real daemon."""
import ipaddress, os
from concurrent.futures import ThreadPoolExecutor
from .. import common, build, e1, e2
from . import pcommon

def v6(groups):
    return ipaddress.IPv6Address(int(''.join('%04x' % g for g in groups), 16))

def grammar_cases():
    """-> [(text, expect)] where expect = None (must be rejected) or (bits, 16 address bytes)"""
    cases = []
    pats = [[0x2001, 0xdb8, 0, 0, 0, 0, 0, 0], [0x2001, 0xdb8, 0x1, 0, 0, 0, 0, 0x5], [0xffff] * 8, [0, 0, 0, 0, 0, 0, 0, 0], [0xa, 0, 0xb, 0, 0, 0xc, 0, 0],
            [0x1, 0x22, 0x333, 0x4444, 0x5, 0x66, 0x777, 0x8888], [0xfe80, 0, 0, 0, 0x1, 0, 0, 0x1], [0, 0, 0, 0, 0, 0, 0, 1]]
    lens = [0, 1, 15, 16, 17, 31, 32, 33, 63, 64, 65, 127, 128]
    for g in pats:
        a = v6(g)
        for t in {str(a), a.exploded}:
            if ipaddress.IPv6Address(t).ipv4_mapped or t.startswith('::') and '.' in t:
                continue
            for n in lens:
                cases.append(('%s/%d' % (t, n), (n, a.packed)))
            cases.append(('%s/129' % t, None))
            cases.append(('%s/1000' % t, None))
    for k in range(1, 8):
        g = [0x2001, 0xdb8, 0x7, 0xabcd, 0x1, 0xf00d, 0xbeef][:k]
        cases.append((':'.join('%x' % x for x in g) + ':*', (16 * k, v6(g + [0] * (8 - k)).packed)))
    cases.append(('1:2:3:4:5:6:7:8:*', None))
    cases.append(('a::b:*', None))
    for t, bits, addr in (('10.*', 104, '::ffff:10.0.0.0'), ('10.20.*', 112, '::ffff:10.20.0.0'), ('10.20.30.*', 120, '::ffff:10.20.30.0'),
                          ('255.255.255.*', 120, '::ffff:255.255.255.0'), ('*', 0, '::'), ('***', 0, '::')):
        cases.append((t, (bits, ipaddress.IPv6Address(addr).packed)))
    cases.append(('10.*.1', None)); cases.append(('10.20.30.40.*', None)); cases.append(('256.*', None))
    for quad in ('10.20.30.40', '255.255.255.255', '0.0.0.0', '1.2.3.4'):
        for n in range(0, 33):
            cases.append(('%s/%d' % (quad, n), (96 + n, ipaddress.IPv6Address('::ffff:' + quad).packed)))
        cases.append(('%s/33' % quad, None)); cases.append(('%s/' % quad, None)); cases.append(('%s/a' % quad, None))
    cases.append(('192.168/16', (112, ipaddress.IPv6Address('::ffff:192.168.0.0').packed)))
    for t, n in (('2001:DB8::/32', 32), ('FE80::/10', 10), ('AbCd:EF01::/64', 64), ('::FFFF:10.0.0.0/8', 104), ('2001:DB8:A:B:C:D:E:F', 128), ('FFFF:*', 16)):
        cases.append((t, (n, ipaddress.IPv6Address(t.split('/')[0].replace(':*', '::')).packed)))
    cases.append(('::/1', (1, bytes(16)))); cases.append(('::/0', (0, bytes(16)))); cases.append(('0.0.0.0/0', (96, ipaddress.IPv6Address('::ffff:0.0.0.0').packed)))
    # plain addresses given where a mask may be given: the whole address is the prefix (128 bits), in every spelling of "::"
    for t in ('1:2:3:4:5:6:7:8', '1:2:3:4:5:6:7::', '::2:3:4:5:6:7:8', '1::3:4:5:6:7:8', '1:2:3:4::6:7:8', '1:2:3:4:5:6::8', '::', '::1', '1::', 'a:b::c:d', '2001:db8::',
              '0:0:0:0:0:0:0:0', 'ffff:ffff:ffff:ffff:ffff:ffff:ffff:ffff', '1:2:3:4:5:6:7:0', '0:2:3:4:5:6:7:8'):
        cases.append((t, (128, ipaddress.IPv6Address(t).packed)))
        if '.' not in t:
            for n in (0, 1, 16, 64, 112, 127, 128):     # ... and the same spellings with a prefix length: x:y::/n in every position of the "::"
                cases.append(('%s/%d' % (t, n), (n, ipaddress.IPv6Address(t).packed)))
    for t in ('1.2.3.4', '255.255.255.255', '0.0.0.1'):
        cases.append((t, (128, ipaddress.IPv6Address('::ffff:' + t).packed)))
    for t in ('::ffff:1.2.3.4', '1:2:3:4:5:6:1.2.3.4', '::1:2:3:4:5:1.2.3.4', '64:ff9b::192.0.2.33'):
        cases.append((t, (128, ipaddress.IPv6Address(t).packed)))
    for t, n in (('::ffff:10.0.0.0/8', 104), ('64:ff9b::192.0.2.0/24', 120), ('0:0:0:0:0:ffff:10.1.0.0/16', 112)):
        cases.append((t, (n, ipaddress.IPv6Address(t.split('/')[0]).packed)))
    return cases

def main(tier):
    run = common.Run('C13', 'exploration', tier)
    try:
        b = build.build()
    except RuntimeError as e:
        raise common.HarnessError(str(e))
    ub = 0
    # 1. mask test
    rc, out, err = e2.run(b, ['addr', 'mask'])
    viols, summ = e2.parse_json_lines(out)
    ub += err.count('runtime error:')
    mask_calls = summ[0]['mask_calls'] if summ else 0
    for v in viols:
        run.violation(v['class'], v['detail'], {'engine': 'core_vh addr mask', 'detail': v['detail']}, dedup=v['detail'][:60])
    if rc != 0 and not viols:
        run.violation('mask/crash', 'mask enumeration died rc=%s %s' % (rc, err.strip().splitlines()[:3]), {'engine': 'core_vh addr mask', 'stderr': err[-3000:]})
    # 2. all strings
    L = 7 if run.tier == 'quick' else 9
    res = e2.run_parts(b, lambda k, n: ['addr', 'pton', L, k, n], 16, timeout=run.deadline_s)
    summ = []
    for rc, viols, s, err in res:
        ub += err.count('runtime error:')
        summ += s
        for v in viols:
            run.violation(v['class'], v['detail'], {'engine': 'core_vh addr ptonfile', 'detail': v['detail']}, dedup=v['class'] + v['detail'][:50])
        if rc != 0 and not viols:
            run.violation('pton/memory-error', 'irc_pton touched memory outside its arguments (or died) on some string of length <= %d: %s' % (L, [l for l in err.splitlines() if 'ERROR' in l or 'SUMMARY' in l][:2]),
                          {'engine': 'core_vh addr pton', 'stderr': err[-4000:]}, dedup='pton-mem')
    tot = e2.merge_counts(summ)
    nstr = int(tot.get('calls', 0)) // 4
    # 3. grammar-derived masks
    cases = grammar_cases()
    rc, out, err = e2.run(b, ['addr', 'ptonfile'], stdin=('\n'.join(t for t, _ in cases) + '\n').encode())
    lines = out.splitlines()
    accepted_odd = []
    if rc != 0 or len(lines) != len(cases):
        run.violation('pton/memory-error', 'ptonfile died on the grammar-derived texts: rc=%s %s' % (rc, err.strip().splitlines()[:3]), {'engine': 'core_vh addr ptonfile', 'stderr': err[-3000:]})
        lines = []
    for (t, exp), l in zip(cases, lines):
        r0, plain, r1, bits, mhex = l.split()
        r1, bits = int(r1), int(bits)
        if exp is None:
            # the statement allows "every other string" to be rejected OR parsed without touching foreign memory:
            # acceptance of an odd text is recorded, not raised
            if r1 != 0:
                accepted_odd.append(t)
        else:
            if r1 != len(t):
                run.violation('pton/rejects-valid-mask', '%r should parse completely, irc_pton returned %d' % (t, r1), {'engine': 'core_vh addr ptonfile', 'text': t})
            elif bits != exp[0] or bytes.fromhex(mhex) != exp[1]:
                run.violation('pton/wrong-mask', '%r should give /%d %s, got /%d %s' % (t, exp[0], exp[1].hex(), bits, mhex), {'engine': 'core_vh addr ptonfile', 'text': t}, dedup='wrongmask|' + t.split('/')[0][:12])
    # 4. class-rule address criterion through the daemon
    maskc = [c for c in cases if c[1] is not None and ('/' in c[0] or '*' in c[0])]
    zero_lead = [c for c in maskc if c[1][1][:14] in (bytes(14), bytes(10) + b'\xff\xff' + bytes(2))]      # networks whose leading groups are all zero (0.0.0.0/n, ::/n ...)
    picked = maskc[:: (6 if run.tier == 'quick' else 1)]
    rule_cases = class_path(run, b, picked + [c for c in zero_lead if c not in picked])
    cov = {'evaluations': int(mask_calls) + nstr * 4 + len(cases) + rule_cases,
           'distinct_nontrivial': int(tot.get('nontrivial', 0)),
           'rule': 'mask: 2 bases x 8 groups x 65536 differences x 132 lengths + group pairs; strings: every string of length <= %d over "01259af:./*" (x4 call modes), '
                   'non-trivial = length > 1 and not starting with / or * (counted by the enumerator); grammar: %d CIDR/wildcard texts; rules: inside/outside probes' % (L, len(cases)),
           'samples': ['127.0.0.1/32', '2001:db8::/32', 'a.b.*', '::ffff:1.2.3.4', '1:2:3:4:5:6:7:127.0.0.1 (must be rejected without overrun)', '192.168/16'],
           'exhaustive': True, 'mask_calls': mask_calls, 'strings': nstr, 'string_length_bound': L, 'accepted_plain': tot.get('accepted_plain'),
           'accepted_with_mask': tot.get('accepted_with_mask'), 'both_parsers_accept': tot.get('both_parsers_accept'), 'grammar_cases': len(cases),
           'class_rule_probes': rule_cases, 'ubsan_reports_logged': ub, 'odd_texts_accepted_not_raised': accepted_odd}
    if nstr < 1000000 and not run.violations and not run.capped:
        raise common.HarnessError('vacuous: only %d strings' % nstr)
    return run.finish(cov, assumptions=['alphabet restricted to 11 characters that reach every branch of the parser; longer strings only through the grammar-derived set',
                                        'UB that touches no memory (shift count for a fifth dotted component) is logged, not raised: the statement forbids touching foreign memory'])

def class_path(run, b, cases):
    def one(c):
        text, (bits, packed) = c
        n6 = int.from_bytes(packed, 'big')
        probes = []
        def fmt(v):
            a = ipaddress.IPv6Address(v)
            if a.ipv4_mapped:
                return str(a.ipv4_mapped)
            t = str(a)
            return '0' + t if t.startswith(':') else t
        if bits < 128:
            probes.append((fmt(n6 ^ 1), True))               # differs in the last host bit: inside
            probes.append((fmt(n6 | ((1 << (128 - bits)) - 1)), True))   # every host bit set (the last address of the prefix): inside
        probes.append((fmt(n6), True))
        if bits > 0:
            probes.append((fmt(n6 ^ (1 << (128 - bits))), False))   # differs in the last prefix bit: outside
        rules = [('m', {'address': text, 'class': 'inside'})]
        conf = e1.conf_text(os.path.join(b, 'mods-wrapped'), services=[], timeout=0, rules=rules)
        bad = []
        with e1.Server(conf, builddir=b) as srv:
            for addr, inside in probes:
                res, status, err, ex = srv.trace([('L', '1 C %s 1111 10.9.9.9 6667\n' % addr), ('L', '1 H\n')], 0)
                outl = [l for r in res for l in r.out]
                got = any(l.startswith('D 1 ') and l.endswith(' inside') for l in outl)
                if status != 'ok' or not any(l.startswith('D 1 ') for l in outl):
                    continue   # e.g. an address the daemon cannot echo; not this property
                if got != inside:
                    bad.append((addr, inside, outl))
        return text, len(probes), bad
    n = 0
    with ThreadPoolExecutor(12) as ex:
        for text, k, bad in ex.map(one, cases):
            n += k
            for addr, inside, outl in bad:
                run.violation('rule/address-criterion', 'rule address %r, client %s is %s the prefix but the daemon said %r' % (text, addr, 'inside' if inside else 'outside', outl),
                              {'engine': 'E1-trace', 'rule_address': text, 'client': addr}, dedup='rule|' + text)
    return n

def replay(obj):
    print(obj['what'])
    return main('quick')
