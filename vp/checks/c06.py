"""C06 - queries are timely and carry the client's own data (DESIGN 5/C06).

(a) orders: closed solo searches over an alphabet that contains every arrival order of the data items;
    the observer knows, per protocol, when the needed data is known and what the query must contain.
(b) contents: the full product of boundary-value field variants x arrival orders against a configuration
    with all four protocols, each variant executed on the real daemon and checked by the same observer."""
import itertools, os
from . import pcommon
from .. import common, build, e1, proto, alpha, tpool

NEED = ('query-CHECK', 'query-LOGIN', 'query-MORE', 'password-malformed', 'challenge-answer')

def plan(tier):
    S = pcommon.S
    if tier == 'quick':
        return [pcommon.reload_search(tier, 'slot'),      # a service that arrives by reload while the client waits must be asked, too
                S('solo/hurry/login+drone/t30', 'login+drone', 30, [1], alpha.scen_hurry([1])),     # several password forms of different length per instance
                S('solo/orders/login+drone/t30', 'login+drone', 30, [1], alpha.scen_orders([1])),
                S('solo/orders/ipr+comb/t0', 'ipr+comb', 0, [1], alpha.scen_orders([1], passwords=('x', 'nopass'), pbudget=2), maxstates=6000)]
    p = []
    for g in ('login+drone', 'ipr+comb', 'login', 'ipr', 'drone', 'comb', 'all4'):
        p.append(S('solo/orders/%s/t30' % g, g, 30, [1], alpha.scen_orders([1], passwords=('x', 'nopass', 'onlyacct'), pbudget=2)))
    p.append(S('solo/hurry/ipr+comb/t30', 'ipr+comb', 30, [1], alpha.scen_hurry([1])))
    p.append(pcommon.reload_search(tier, 'slot'))
    p.append(pcommon.reload_search(tier, 'three'))
    return p

# ---- contents ---------------------------------------------------------------------------------------
def variants():
    nicks = ['n', 'N' * 30, 'M' * 31, 'n%s%n']
    users = ['abc', 'abcdefghi', 'abcdefghij', 'abcdefghijk', '~joe']
    idents = [None, '', 'i234567890', 'i2345678901', '~ident']
    hosts = [None, 'h', ('h' * 59) + '.org', ('h' * 60) + '.org']
    reals = ['Real', 'Real Name: with colon', 'R' * 50, 'S' * 51, 'R%s %n%d 100%%']
    creds = ['+x acct pass', '+x ' + 'a' * 30 + ' ' + 'p' * 370, '+x  acct   pass  word', '+x ac%sct pa%nss%d%%']
    return list(itertools.product(nicks, users, idents, hosts, reals, creds))

ORDERS = ('data-then-password', 'password-first', 'hurry-early')

def order_events(i, order, v, pk):
    nick, user, ident, host, real, cred = v
    hostev = ('N', i) if host is not None else ('d', i)
    identev = [] if ident is None else [('u', i) if ident != '' else ('u0', i)]
    if order == 'data-then-password':
        return [('C', i), hostev] + identev + [('n', i), ('U', i), ('P', i, pk), ('H', i)]
    if order == 'password-first':
        return [('C', i), ('P', i, pk), ('U', i), ('n', i)] + identev + [hostev, ('H', i)]
    return [('C', i), ('n', i), ('H', i), ('P', i, pk), ('U', i)] + identev + [hostev]

_WORLD = {}

def _job(server, item):
    k, order, v = item
    nick, user, ident, host, real, cred = v
    i = 5000 + k
    proto.CLIENTS[i] = dict(addr='10.0.0.1', port=1111, laddr='10.9.9.9', lport=6667, host=host or 'unused', ident=ident or 'unused', nick=nick, user=user, real=real)
    pk = 'v%d' % k
    proto.PASSWORDS[pk] = (cred, True)
    w = _WORLD.get('w')
    if w is None:
        w = _WORLD['w'] = proto.World(pcommon.G['all4'], pcommon.rules_for(pcommon.G['all4']), server.banner, 0)
    syms = order_events(i, order, v, pk)
    V, outs, status, err, done = tpool.run_symbolic(server, w, [i], syms)
    nx = sum(1 for o in outs for l in o if l.startswith('X '))
    return {'k': k, 'order': order, 'V': [(t, x, n) for t, x, n in V if t.startswith('C06.')], 'status': status, 'err': err[-1500:], 'nx': nx,
            'syms': [list(s) for s in syms], 'outs': outs, 'variant': v}

def contents(run, tier):
    b = build.build()
    conf = e1.conf_text(os.path.join(b, 'mods-wrapped'), services=pcommon.G['all4'], timeout=0, rules=pcommon.rules_for(pcommon.G['all4']))
    vs = variants()
    items = [(k, o, v) for k, v in enumerate(vs) for o in ORDERS]
    n = nx = 0
    shapes = set()
    sample = None
    with tpool.TracePool(conf, b) as tp:
        for r in tp.imap(_job, items, chunksize=16):
            if 'harness_error' in r:
                raise common.HarnessError(r['harness_error'])
            n += 1; nx += r['nx']
            if r['status'] != 'ok':
                run.violation('C06.died-on-contents', '[contents/%s] the daemon died (%s) while handling a client whose fields are %r: %s' % (r['order'], r['status'], r['variant'], (r['err'].strip().splitlines() or ['?'])[0][:160]),
                              {'engine': 'E1-trace', 'conf': conf, 'variant': r['variant'], 'order': r['order'], 'symbolic': r['syms'], 'outputs': r['outs']}, dedup='contents-died|%s' % r['order'])
            for t, x, idx in r['V']:
                run.violation(t, '[contents/%s] %s' % (r['order'], x),
                              {'engine': 'E1-trace', 'conf': conf, 'variant': r['variant'], 'order': r['order'], 'symbolic': r['syms'], 'outputs': r['outs']},
                              dedup='contents|%s|%s' % (t, r['order']))
            for o in r['outs']:
                for l in o:
                    if l.startswith('X '):
                        shapes.add((l.split(' ')[1], tuple(len(f) for f in l.split(' ')[3:9])))
            if sample is None and r['nx'] >= 4:
                sample = {'variant': r['variant'], 'order': r['order'], 'outputs': r['outs']}
    return {'content_traces': n, 'content_query_lines_checked': nx, 'content_distinct_query_shapes': len(shapes), 'content_sample': sample,
            'content_variants': len(vs), 'content_orders': list(ORDERS)}

def many_services(run):
    """Service tables of 1, 2, 31, 32, 33 and 40 dronecheck services: the services the daemon reports as configured (`? config`) are exactly those it asks
    about a complete client, each once; a service it did not ask has no say (its NO is ignored); once every asked service has answered OK the client is accepted."""
    b = build.build()
    n = 0
    for N in (1, 2, 31, 32, 33, 40):
        services = [('s%02d.svc' % k, 'dronecheck') for k in range(N)]
        conf = e1.conf_text(os.path.join(b, 'mods-wrapped'), services=services, timeout=0, rules=[])
        lines = ['1 C 10.0.0.1 1111 10.9.9.9 6667', '1 N host1.example.net', '1 u ident1', '1 n Nick1', '1 U user1 :Real Name', '-1 ? config']
        with e1.Server(conf, builddir=b) as srv:
            res, status, err, ex = srv.trace([('L', l + '\n') for l in lines], 0)
            if status != 'ok':
                run.violation('C06.many-services/died', '%d services: the daemon ended with %s: %s' % (N, status, (err.strip().splitlines() or ['?'])[0][:160]), {'engine': 'E1-trace', 'conf': conf, 'lines': lines}, dedup='many-died')
                continue
            out = [l for r in res for l in r.out]
            asked = [l.split(' ')[1] for l in out if l.startswith('X ')]
            cfg = [l.split(' ')[3] for l in res[-1].out if l.startswith('A xquery : ')]
            n += 1
            if sorted(asked) != sorted(cfg) or len(set(asked)) != len(asked):
                run.violation('C06.query-skipped', '%d services in the file: the daemon reports %d as configured and asked %d of them about a complete client (not asked: %s; asked twice: %s)'
                              % (N, len(cfg), len(set(asked)), sorted(set(cfg) - set(asked))[:4], sorted(x for x in set(asked) if asked.count(x) > 1)[:4]),
                              {'engine': 'E1-trace', 'conf': conf, 'lines': lines}, dedup='many-skipped')
            unasked = [sname for sname, _ in services if sname not in asked]
            tag = next((l.split(' ')[2] for l in out if l.startswith('X ')), '1_1')
            for sname in unasked[:3]:
                r2, st2, err2, ex2 = srv.trace([('L', l + '\n') for l in lines[:-1]] + [('L', '-1 X %s %s :NO not asked\n' % (sname, tag))], 0)
                if st2 != 'ok' or (r2 and r2[-1].out):
                    run.violation('C06.unasked-service-decides', '%d services in the file: a NO from %s, which was never asked about the client, produced %r (%s)' % (N, sname, r2[-1].out if r2 else None, st2),
                                  {'engine': 'E1-trace', 'conf': conf, 'lines': lines[:-1] + ['-1 X %s %s :NO not asked' % (sname, tag)]}, dedup='many-unasked')
            oks = [('L', '-1 X %s %s :OK\n' % (sname, tag)) for sname in asked]
            r3, st3, err3, ex3 = srv.trace([('L', l + '\n') for l in lines[:-1]] + oks, 0)
            verdicts = [l for r in r3 for l in r.out if l.startswith('D 1 ')]
            if st3 != 'ok' or len(verdicts) != 1 or not r3[-1].out:
                run.violation('C06.many-services/no-verdict', '%d services in the file, all %d asked services answer OK: verdict lines %r (%s)' % (N, len(asked), verdicts, st3),
                              {'engine': 'E1-trace', 'conf': conf, 'lines': lines[:-1]}, dedup='many-verdict')
    return {'service_table_sizes_tried': n}


def main(tier):
    def extra(run):
        d = contents(run, tier)
        d.update(many_services(run))
        return d
    return pcommon.run_plan('C06', tier, plan(tier), ('C06.',), NEED, extra_cov=extra)

def replay(obj):
    r = obj['replay']
    if r.get('engine') != 'E1-trace' or 'variant' not in r:
        return pcommon.replay(obj)
    print('variant', r['variant'], 'order', r['order'])
    k = 0
    item = (k, r['order'], tuple(r['variant']))
    b = build.build()
    with e1.Server(r['conf'], builddir=b) as srv:
        res = _job(srv, item)
    for s, o in zip(res['syms'], res['outs']):
        print(s, '->', o)
    for t, x, n in res['V']:
        print('!!', t, x)
    return 1 if res['V'] else 0
