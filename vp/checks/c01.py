"""C01 - one verdict per announced client, then silence (DESIGN 5/C01)."""
from . import pcommon
from .. import alpha, e1

NEED = ('accept-D', 'accept-R', 'reject', 'soft-done', 'reannounce-live', 'stray-old', 'timeout-fired', 'withdraw-while-owed', 'accept-forced-by-timeout')

def plan(tier):
    p = pcommon.plan_solo(tier)
    S = pcommon.S
    if tier == 'quick':
        p.append(S('pair/reduced/login+drone/t30', 'login+drone', 30, [1, 2], alpha.reduced([1, 2]), maxdepth=6))
    else:
        p.append(S('pair/reduced/login+drone/t30', 'login+drone', 30, [1, 2], alpha.reduced([1, 2])))
        p.append(S('triple/reduced/login+drone/t30', 'login+drone', 30, [1, 2, 3], alpha.reduced([1, 2, 3]), maxdepth=5))
    return p

def main(tier):
    # two-client interleavings with challenge-response flows, judged by the observer (a query carrying the tag of a client that is gone ...)
    from . import c07
    # a timer left behind by a finished client is only ever enabled on a tree that leaves one (event TOO): its handler running on the released request
    # (a verdict for a client that is gone, or a sanitizer abort while writing one) is this property's violation
    return pcommon.run_plan('C01', tier, plan(tier), ('C01.',), NEED, crash_is_violation=('TOO',), pre_cov=lambda run: c07.direct_differential(run, tier, prefixes=('C01.',), extras=False))

replay = pcommon.replay
