"""C01 - one verdict per announced client, then silence (DESIGN 5/C01)."""
from . import pcommon
from .. import alpha, e1, common, proto

NEED = ('accept-D', 'accept-R', 'reject', 'soft-done', 'reannounce-live', 'stray-old', 'timeout-fired', 'withdraw-while-owed', 'accept-forced-by-timeout')

def plan(tier):
    p = pcommon.plan_solo(tier)
    S = pcommon.S
    if tier == 'quick':
        p.append(S('pair/reduced/login+drone/t30', 'login+drone', 30, [1, 2], alpha.reduced([1, 2]), maxdepth=6))
    else:
        p.append(S('pair/reduced/login+drone/t30', 'login+drone', 30, [1, 2], alpha.reduced([1, 2])))
        p.append(S('triple/reduced/login+drone/t30', 'login+drone', 30, [1, 2, 3], alpha.reduced([1, 2, 3]), maxdepth=5))
    return p

def e3_bursts(run):
    """The unmodified daemon over a real pipe, real event loop and real timers - what the fork-server engine cannot show because it hands the daemon one
    line at a time and fires only request timers:
      A. N clients (N = 1, 8, 9, 12, 20, 40) complete in ONE write, every one is then withdrawn, a `? stats` request serves as barrier; after the barrier is
         answered and 0.6 s have passed nothing may name a withdrawn client (a query written later by some other timer would);
      B. a waiting client, 5-9 KB of other traffic and then its `D`, all in one write, with a 1 s request timeout: no verdict for the withdrawn id may
         appear while the server stays quiet (a daemon that has not read all it was sent yet would time the client out)."""
    import time
    from .. import build, e3
    b = build.build()
    services = pcommon.G['login+drone']
    n = 0
    def names(line, ids, tags):
        f = line.split(' ')
        if line.startswith('X ') and len(f) > 2:
            return f[2] in tags
        return len(f) > 1 and f[0] in proto.CLIENT_CMDS and f[1] in ids
    unanswered = []
    for N in (1, 8, 9, 12, 20, 40):
        conf = e3.plain_conf(b, services=services, timeout=30, rules=pcommon.rules_for(services))
        d = e3.Daemon(conf, b=b)
        try:
            if not d.wait_banner():
                raise common.HarnessError('E3 daemon did not start')
            ids = [str(10 + k) for k in range(N)]
            burst = ''.join('%s C 10.0.1.%s 4%s 10.9.9.9 6667\n%s N host%s.example.net\n%s u ident%s\n%s n nick%s\n%s U user%s :Real Name %s\n' % ((i,) * 12) for i in ids)
            burst += ''.join('%s D\n' % i for i in ids) + '-1 ? stats\n'
            d.write(burst.encode())
            if not d.wait_for(lambda o: b'srv alloc' in o and o.endswith(b'\n'), 30):
                # the daemon has stopped reading (or answering): not this property's business by itself - part B shows whether a withdrawn client gets a verdict
                unanswered.append(N)
                d.close(5)
                continue
            mark = len(d.lines())
            time.sleep(0.6)
            rc, out, err = d.close(10)
        except Exception:
            d.close()
            raise
        n += 1
        tags = set()
        for l in out:
            f = l.split(' ')
            if l.startswith('X ') and len(f) > 2 and f[2].split('_')[0] in ('%x' % int(i) for i in ids):
                tags.add(f[2])
        late = [l for l in out[mark - 1:] if names(l, set(ids), tags)]
        if late or rc != 0:
            run.violation('C01.line-after-end', '[E3 burst] %d clients completed in one write and then withdrawn: after the barrier was answered the daemon still wrote %r (exit %s)' % (N, late[:3], rc),
                          {'engine': 'E3', 'conf': conf, 'n_clients': N, 'stdout_tail': out[-12:]}, dedup='e3burst')
    for fill in (3000, 5000, 9000):
        conf = e3.plain_conf(b, services=services, timeout=1, rules=pcommon.rules_for(services))
        d = e3.Daemon(conf, b=b)
        try:
            if not d.wait_banner():
                raise common.HarnessError('E3 daemon did not start')
            burst = '100 C 10.0.1.1 4100 10.9.9.9 6667\n100 N host.example.net\n100 u ident\n100 n nick\n100 U user :Real Name\n101 C 10.0.1.2 4101 10.9.9.9 6667\n'
            k = 0
            while len(burst) < fill:
                burst += '101 n nick%05d\n' % k
                k += 1
            burst += '100 D\n101 D\n'
            d.write(burst.encode())
            time.sleep(2.2)
            rc, out, err = d.close(10)
        except Exception:
            d.close()
            raise
        n += 1
        bad = [l for l in out if l.split(' ')[0] in ('D', 'R', 'k', 'K') and len(l.split(' ')) > 1 and l.split(' ')[1] in ('100', '101')]
        if bad or rc != 0:
            run.violation('C01.verdict-not-live', '[E3 burst] a waiting client, %d bytes of other traffic and its D in one write, 1 s request timeout, server quiet for 2.2 s: the daemon wrote %r (exit %s)' % (len(burst), bad[:3], rc),
                          {'engine': 'E3', 'conf': conf, 'burst_bytes': len(burst), 'stdout_tail': out[-8:]}, dedup='e3quiet')
    if unanswered and not run.violations:
        raise common.HarnessError('E3 burst: the stats request that serves as barrier was not answered within 30 s (bursts of %s clients)' % unanswered)
    return {'e3_burst_runs': n}


def main(tier):
    # two-client interleavings with challenge-response flows, judged by the observer (a query carrying the tag of a client that is gone ...)
    from . import c07
    # a timer left behind by a finished client is only ever enabled on a tree that leaves one (event TOO): its handler running on the released request
    # (a verdict for a client that is gone, or a sanitizer abort while writing one) is this property's violation
    return pcommon.run_plan('C01', tier, plan(tier), ('C01.',), NEED, crash_is_violation=('TOO',), pre_cov=lambda run: c07.direct_differential(run, tier, prefixes=('C01.',), extras=False),
                            extra_cov=e3_bursts)

replay = pcommon.replay
