"""C20 - module load and unload respect declared dependencies (DESIGN 5/C20).

Engine E3: the unmodified daemon binary started on a configuration that lists stub modules m1..mN (byte copies of
one stub, harness/stub_module.c).  Each stub's constructor reads its dependencies from a graph file, logs
ctor-begin, calls the real module_depends() for each, logs ctor-end; post-init and destructor log too; the first
listed module ends the event loop cleanly once it runs ("running").  Every run is one real start-up + shutdown.
  quick     every directed graph WITH self-loops on <= 3 labelled nodes x every ordered non-empty list of nodes;
            every loop-free and every cyclic graph on 4 labelled nodes x 2 listing orders; missing-module cases
  thorough  + every directed graph on 4 labelled nodes (4096) x every ordered non-empty list (64);
            every DAG on 5 labelled nodes x 2 lists; named 6-node families in every labelling
Oracle from the event log and exit status (written from the statement).
"""
import itertools, os, shutil, subprocess, tempfile, threading, multiprocessing as mp
from .. import common, build

ENV = {'ASAN_OPTIONS': 'exitcode=86:abort_on_error=0:detect_leaks=0:allocator_may_return_null=1', 'UBSAN_OPTIONS': 'print_stacktrace=0:halt_on_error=0'}
_tls = threading.local()


def names(n):
    return ['m%d' % (i + 1) for i in range(n)]


def reach(graph, roots):
    """modules that get loaded: dependencies, and the front-ends a back-end names with ^"""
    seen, st = [], list(roots)
    while st:
        x = st.pop()
        if x in seen:
            continue
        seen.append(x)
        st += [y.lstrip('^') for y in graph.get(x, ()) if y != '!']
    return set(seen)


def dep_edges(graph):
    """(dependent, dependency, declared by the dependency itself with ^?)"""
    out = []
    for a, ds in graph.items():
        for d in ds:
            if d == '!':
                continue        # "this module is a back-end": no edge
            if d.startswith('^'):
                out.append((d[1:], a, True))
            else:
                out.append((a, d, False))
    return out


def cyclic(graph, nodes):
    color = {}
    adj = {}
    for a, c, anti in dep_edges(graph):
        adj.setdefault(a, []).append(c)
    def dfs(u):
        color[u] = 1
        for v in adj.get(u, ()):
            if v not in nodes:
                continue
            if color.get(v) == 1 or (color.get(v) is None and dfs(v)):
                return True
        color[u] = 2
        return False
    return any(color.get(u) is None and dfs(u) for u in sorted(nodes))


def run_case(b, case):
    """case = (graph {name: (deps...)}, listing [names], set of names that have a .so)"""
    graph, listing, have = case[:3]
    nopost = case[3] if len(case) > 3 else frozenset()
    noctor = case[4] if len(case) > 4 else frozenset()
    d = getattr(_tls, 'dir', None)
    if d is None:
        d = _tls.dir = tempfile.mkdtemp(prefix='c20-', dir=b)
        os.makedirs(os.path.join(d, 'mods'))
        for nm in names(6):
            shutil.copy(os.path.join(b, 'stubs', 'stub.so'), os.path.join(d, 'mods', nm + '.so'))
    mods = os.path.join(d, 'mods')
    if have is not None or nopost or noctor:
        hv = sorted(have) if have is not None else names(6)
        mods = os.path.join(d, 'mods-' + '-'.join(hv) + '-np-' + '-'.join(sorted(nopost)) + '-nc-' + '-'.join(sorted(noctor)))
        if not os.path.isdir(mods):
            os.makedirs(mods)
            for nm in hv:
                shutil.copy(os.path.join(b, 'stubs', 'stub_noctor.so' if nm in noctor else ('stub_nopost.so' if nm in nopost else 'stub.so')), os.path.join(mods, nm + '.so'))
    log = os.path.join(d, 'log')
    with open(os.path.join(d, 'graph'), 'w') as f:
        for k in sorted(graph):
            f.write('%s: %s\n' % (k, ' '.join(graph[k])))
    with open(os.path.join(d, 'conf'), 'w') as f:
        f.write('core {\n  library_path ( "%s" )\n  modules ( %s )\n}\n' % (mods, ', '.join(listing)))
    open(log, 'w').close()
    e = dict(os.environ); e.update(ENV)
    e.update({'VH_GRAPH': os.path.join(d, 'graph'), 'VH_LOG': log, 'VH_RUNNER': listing[0]})
    p = subprocess.Popen([os.path.join(b, 'iauthd-c'), '-n', '-f', os.path.join(d, 'conf')], stdin=subprocess.PIPE, stdout=subprocess.PIPE, stderr=subprocess.PIPE, env=e, cwd=d)
    try:
        out, err = p.communicate(timeout=20)
        rc = p.returncode
    except subprocess.TimeoutExpired:
        p.kill(); out, err = p.communicate(); rc = 'hang'
    ev = [tuple(l.split()) for l in open(log).read().splitlines() if l.strip()]
    return rc, ev, out.decode('latin-1'), err.decode('latin-1')


_G = {}


def _run1(case):
    return run_case(_G['b'], case)


def judge(case, rc, ev, out, err):
    graph, listing, have = case[:3]
    nopost = case[3] if len(case) > 3 else frozenset()
    noctor = case[4] if len(case) > 4 else frozenset()
    allnodes = set(graph) | {y.lstrip('^') for v in graph.values() for y in v if y != '!'} | set(listing)
    R = reach(graph, listing)
    missing = {m for m in R if have is not None and m not in have}
    V = []
    if 'ERROR: AddressSanitizer' in err:
        V.append(('C20.memory', 'sanitizer report: ' + err.strip().splitlines()[0][:160]))
    pos = {}
    cnt = {}
    for i, (what, who) in enumerate(ev):
        cnt[(what, who)] = cnt.get((what, who), 0) + 1
        pos.setdefault((what, who), i)
    running = cnt.get(('running', listing[0]), 0)
    if missing or cyclic(graph, R):
        kind = 'an unloadable module' if missing else 'a dependency cycle'
        if rc == 0:
            V.append(('C20.bad-graph-accepted', 'start-up with %s ended with exit status 0' % kind))
        if running:
            V.append(('C20.bad-graph-ran', 'the daemon entered its event loop although the configuration has %s' % kind))
        if rc == 'hang':
            V.append(('C20.bad-graph-ran', 'the daemon kept running (no exit) although the configuration has %s' % kind))
        return V
    if rc != 0:
        V.append(('C20.dag-rejected', 'acyclic configuration aborted/failed: exit status %s, stdout %r' % (rc, out.strip().splitlines()[-1:] )))
        return V
    if running != 1:
        V.append(('C20.not-running', 'the event loop callback ran %d times' % running))
    for m in sorted(allnodes):
        for what in ('ctor-begin', 'ctor-end', 'post-init', 'dtor'):
            n = cnt.get((what, m), 0)
            if what == 'post-init' and m in nopost:
                continue      # this module has no post-init entry point
            if what in ('ctor-begin', 'ctor-end') and m in noctor:
                continue      # this module has no constructor
            if m in R and n != 1:
                V.append(('C20.count', '%s of %s happened %d times (expected once)' % (what, m, n)))
            if m not in R and n:
                V.append(('C20.count', '%s of %s happened although nothing requires that module' % (what, m)))
    anti_pairs = {(a, c) for a, c, anti in dep_edges(graph) if anti}
    for a, c, anti in dep_edges(graph):
        if a not in R or c not in R:
            continue
        # (an edge that the back-end ALSO declared with module_antidepends() loads the front-end from inside the back-end's constructor: the construction
        # order of that pair is given by the mechanism itself and is not judged)
        if not anti and (a, c) not in anti_pairs:
            if ('ctor-end', a) in pos and ('ctor-end', c) in pos and not pos[('ctor-end', c)] < pos[('ctor-end', a)]:
                V.append(('C20.ctor-order', '%s finished constructing before its dependency %s' % (a, c)))
            if ('post-init', a) in pos and ('post-init', c) in pos and not pos[('post-init', c)] < pos[('post-init', a)]:
                V.append(('C20.postinit-order', 'post-init of %s ran before that of its dependency %s' % (a, c)))
        # a back-end that named its front-end with module_antidepends() "must be unloaded after it" (README); same rule as for a dependency
        if ('dtor', a) in pos and ('dtor', c) in pos and not pos[('dtor', a)] < pos[('dtor', c)]:
            V.append(('C20.dtor-order', 'destructor of %s ran before that of %s, which %s' % (c, a, 'is its front-end (module_antidepends)' if anti else 'depends on it')))
    if ('running', listing[0]) in pos:
        r = pos[('running', listing[0])]
        for m in R:
            if ('post-init', m) in pos and pos[('post-init', m)] > r:
                V.append(('C20.postinit-order', 'post-init of %s ran after the event loop had started' % m))
    return V


def all_graphs(n, self_loops):
    nm = names(n)
    pairs = [(a, c) for a in nm for c in nm if self_loops or a != c]
    for mask in range(1 << len(pairs)):
        g = {a: [] for a in nm}
        for i, (a, c) in enumerate(pairs):
            if mask >> i & 1:
                g[a].append(c)
        yield {k: tuple(v) for k, v in g.items()}


def listings(nm):
    for k in range(1, len(nm) + 1):
        for p in itertools.permutations(nm, k):
            yield list(p)


def families6():
    """named shapes on 6 nodes, as edge lists over positions 0..5"""
    return {
        'chain': [(0, 1), (1, 2), (2, 3), (3, 4), (4, 5)],
        'diamond': [(0, 1), (0, 2), (1, 3), (2, 3), (3, 4), (4, 5)],
        'double-diamond': [(0, 1), (0, 2), (1, 3), (2, 3), (3, 4), (3, 5)],
        'fan-in': [(0, 5), (1, 5), (2, 5), (3, 5), (4, 5)],
        'fan-out': [(0, 1), (0, 2), (0, 3), (0, 4), (0, 5)],
        'two-components': [(0, 1), (1, 2), (3, 4), (4, 5), (3, 5)],
    }


def cases(quick):
    cs = []
    for n in (1, 2, 3):
        for g in all_graphs(n, True):
            for l in listings(names(n)):
                cs.append((g, l, None))
    nm4 = names(4)
    if quick:
        for g in all_graphs(4, False):
            cs.append((g, [nm4[0]], None)); cs.append((g, nm4[::-1], None))
    else:
        for g in all_graphs(4, False):
            for l in listings(nm4):
                cs.append((g, l, None))
        nm5 = names(5)
        for g in all_graphs(5, False):
            if not cyclic(g, set(nm5)):
                cs.append((g, [nm5[0]], None)); cs.append((g, nm5[::-1], None))
    nm6 = names(6)
    fam = families6()
    perms = list(itertools.permutations(range(6)))
    if quick:
        perms = perms[::24]
    for fname, edges in fam.items():
        for p in perms:
            g = {m: [] for m in nm6}
            for a, c in edges:
                g[nm6[p[a]]].append(nm6[p[c]])
            g = {k: tuple(v) for k, v in g.items()}
            roots = [m for m in nm6 if not any(m in v for v in g.values())]
            cs.append((g, roots, None))
    # modules without the optional post-init entry point: every graph on <= 3 nodes (no self-loops) x every subset of such modules,
    # and every 4-node DAG with the shared/last node or all nodes lacking it
    for n in (2, 3):
        nm = names(n)
        for g in all_graphs(n, False):
            for k in range(1, n + 1):
                for sub in itertools.combinations(nm, k):
                    cs.append((g, [nm[0]], None, frozenset(sub))); cs.append((g, nm[::-1], None, frozenset(sub)))
    for g in all_graphs(4, False):
        if not cyclic(g, set(nm4)):
            for sub in ((nm4[3],), (nm4[2],), tuple(nm4)):
                cs.append((g, [nm4[0]], None, frozenset(sub)))
    # modules without the optional constructor (leaves: they can declare nothing): every graph on <= 3 nodes x every non-empty set of its leaves x every listing
    for n in (2, 3):
        nm = names(n)
        for g in all_graphs(n, False):
            leaves = [m for m in nm if not g[m]]
            for k in range(1, len(leaves) + 1):
                for sub in itertools.combinations(leaves, k):
                    if len(sub) == n:
                        continue        # somebody has to end the event loop
                    for l in listings(nm):
                        if l[0] in sub:
                            continue    # the first listed module is the one that ends the event loop: it needs a constructor
                        cs.append((g, l, None, frozenset(), frozenset(sub)))
    # modules that call module_is_backend() (unloaded after the ordinary ones - and still in dependency order among themselves): every DAG on <= 3 nodes x
    # every non-empty set of such modules x first-only and reversed listing
    for n in (2, 3):
        nm = names(n)
        for g in all_graphs(n, False):
            if cyclic(g, set(nm)):
                continue
            for k in range(1, n + 1):
                for sub in itertools.combinations(nm, k):
                    g2 = {m: (('!',) + g[m] if m in sub else g[m]) for m in nm}
                    for l in ([nm[0]], nm[::-1], nm):
                        cs.append((g2, list(l), None))
    # back-ends declared with module_antidepends(): one such edge alone, and next to one ordinary dependency, in every labelling and listing
    for n in (2, 3):
        nm = names(n)
        for back, front in itertools.permutations(nm, 2):
            # (the same edge may also be declared from the other end: front depends on back)
            for extra in [None] + [(a, c) for a, c in itertools.permutations(nm, 2) if (a, c) != (back, front)]:
                g = {m: [] for m in nm}
                g[back].append('^' + front)
                if extra:
                    g[extra[0]].append(extra[1])
                g = {k: tuple(v) for k, v in g.items()}
                if cyclic(g, set(nm)):
                    continue
                for l in listings(nm):
                    if back in reach(g, l):
                        cs.append((g, l, None))
    # unloadable modules: a listed module, or a dependency, without a .so
    for g, l, have in [({'m1': ('m2',), 'm2': ()}, ['m1'], {'m1'}), ({'m1': (), 'm2': ()}, ['m1', 'm2'], {'m1'}), ({'m1': (), 'm2': ()}, ['m2', 'm1'], {'m1'}),
                       ({'m1': ('m2',), 'm2': ('m3',), 'm3': ()}, ['m1'], {'m1', 'm2'}), ({'m1': ('m2', 'm3'), 'm2': (), 'm3': ()}, ['m1'], {'m1', 'm3'}),
                       ({'m1': ('m2',), 'm2': ()}, ['m1'], {'m1', 'm2'}), ({'m1': (), 'm2': ()}, ['m1'], {'m1'})]:
        cs.append((g, l, have))
    return cs


def gstr(case):
    g, l, have = case[:3]
    return 'graph {%s} listed (%s)%s' % ('; '.join('%s->%s' % (k, ','.join(v)) for k, v in sorted(g.items()) if v) or 'no edges', ', '.join(l),
                                          ('' if have is None else ' with .so files only for %s' % sorted(have)) + ('' if len(case) < 4 or not case[3] else ' (no post-init entry point in %s)' % sorted(case[3]))
                                          + ('' if len(case) < 5 or not case[4] else ' (no constructor in %s)' % sorted(case[4])))


def shape_class(case):
    g, l, have = case[:3]
    R = reach(g, l)
    indeg = {}
    for a, c, anti in dep_edges(g):
        if a in R and c in R:
            indeg[c] = indeg.get(c, 0) + 1
    if have is not None:
        return 'missing'
    if cyclic(g, R):
        return 'cyclic'
    return 'dag-with-shared-dependency' if any(v > 1 for v in indeg.values()) else 'dag-tree'


def main(tier):
    run = common.Run('C20', 'exploration', tier)
    try:
        b = build.build()
    except RuntimeError as e:
        raise common.HarnessError(str(e))
    quick = run.tier == 'quick'
    cs = cases(quick)
    nshape = {}
    nev = 0
    done = 0
    _G['b'] = b
    with mp.get_context('fork').Pool(16) as ex:
        for case, (rc, ev, out, err) in zip(cs, ex.imap(_run1, cs, chunksize=16)):
            done += 1
            sc = shape_class(case)
            nshape[sc] = nshape.get(sc, 0) + 1
            nev += len(ev)
            for cls, text in judge(case, rc, ev, out, err):
                run.violation(cls + '/' + sc, '%s  [%s; exit %s; log: %s]' % (text, gstr(case), rc, ' '.join('%s:%s' % e for e in ev)[:300]),
                              {'engine': 'E3 stubs', 'graph': {k: list(v) for k, v in case[0].items()}, 'listing': case[1], 'have': sorted(case[2]) if case[2] is not None else None,
                               'nopost': sorted(case[3]) if len(case) > 3 else [], 'noctor': sorted(case[4]) if len(case) > 4 else []},
                              dedup=cls + '/' + sc)
            if run.out_of_time(10):
                run.cap('deadline after %d of %d configurations' % (done, len(cs)))
                break
    for d in [x for x in os.listdir(b) if x.startswith('c20-')]:
        shutil.rmtree(os.path.join(b, d), ignore_errors=True)
    if (nshape.get('dag-with-shared-dependency', 0) < 50 or nshape.get('cyclic', 0) < 50 or nev < 5000) and not run.violations and not run.capped:
        raise common.HarnessError('vacuous: %s, %d log events' % (nshape, nev))
    cov = {'evaluations': done, 'distinct_nontrivial': done - nshape.get('dag-tree', 0),
           'rule': 'one evaluation = one real start-up and shutdown of the daemon on a distinct (labelled dependency graph, module list, available .so files) triple; '
                   'non-trivial = the reachable part has a module reachable along two paths, a cycle, or an unloadable module (trees/forests are the trivial rest)',
           'samples': [gstr(cs[i]) for i in (5, len(cs) // 3, len(cs) // 2, len(cs) - 8, len(cs) - 1)], 'exhaustive': not run.capped,
           'configurations_by_shape': nshape, 'log_events_checked': nev,
           'explanation': 'graphs are labelled because loading and the post-init walk iterate in name order; "every DAG on 6 modules" is NOT enumerated in full (3.7 million labelled DAGs): '
                          '6 nodes are covered by six named families in every labelling' + (' (every 24th labelling in the quick tier)' if quick else '')}
    return run.finish(cov, assumptions=['dlopen/dlsym and the dynamic loader are trusted', 'each stub is a byte copy of one shared object (distinct inode, own statics)'])


def replay(obj):
    r = obj['replay']
    b = build.build()
    case = ({k: tuple(v) for k, v in r['graph'].items()}, r['listing'], set(r['have']) if r['have'] is not None else None, frozenset(r.get('nopost') or []), frozenset(r.get('noctor') or []))
    rc, ev, out, err = run_case(b, case)
    print(gstr(case)); print('exit', rc); print('\n'.join('%s %s' % e for e in ev)); print(out[-600:]); print(err[-600:])
    V = judge(case, rc, ev, out, err)
    for v in V:
        print('!!', v)
    shutil.rmtree(_tls.dir, ignore_errors=True)
    return 1 if V else 0
