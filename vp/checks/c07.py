"""C07 - concurrent clients do not interfere (DESIGN 5/C07).

Phase 1 records, from the implementation itself, each client's solo automaton delta_i(state, event) ->
(state', normalised output) by a closed search with that client alone.  Phase 2 explores the clients
together: every step must (a) give the acting client exactly delta_i's output and successor state for its
own per-client state, (b) name no other client, (c) leave every other client's part of the state untouched.
Because the product search closes, this decides every interleaving of every pair of histories over the
alphabet, of any length."""
import os, time
from . import pcommon
from .. import common, build, psearch, alpha, e1, proto

def solo_delta(run, gamma, timeout, i, alph, label):
    sp = pcommon.S(label, gamma, timeout, [i], alph([i]))
    kw = dict(sp); kw.pop('label')
    s = psearch.Search(run, kw.pop('services'), kw.pop('rules'), kw.pop('timeout'), kw.pop('ids'), kw.pop('alphabet'), label=label, record_delta=True, **kw)
    s.go()
    return s

def main(tier):
    run = common.Run('C07', 'model_checking', tier)
    try:
        build.build()
    except RuntimeError as e:
        raise common.HarnessError(str(e))
    plans = []   # (label, gamma, timeout, ids, alphabet fn, maxdepth)
    if tier == 'quick':
        plans.append(('pair/tiny/login+drone/t30', 'login+drone', 30, [1, 2], alpha.tiny, None))
        plans.append(('pair/reduced/login+drone/t30', 'login+drone', 30, [1, 2], alpha.reduced, 5))
    else:
        plans.append(('pair/tiny/login+drone/t30', 'login+drone', 30, [1, 2], alpha.tiny, None))
        plans.append(('pair/tiny/extreme-ids/login+drone/t30', 'login+drone', 30, [2147483647, -2147483648], alpha.tiny, None))
        plans.append(('pair/reduced/login+drone/t30', 'login+drone', 30, [1, 2], alpha.reduced, None))
        plans.append(('pair/reduced/ipr+comb/t0', 'ipr+comb', 0, [1, 2], alpha.reduced, 7))
        plans.append(('triple/tiny/login+drone/t30', 'login+drone', 30, [1, 2, 3], alpha.tiny, None))
        plans.append(('triple/reduced/extreme-ids/t30', 'login+drone', 30, [2147483647, -2147483648, 0], alpha.reduced, 4))
    states = trans = conf = 0
    per, samples, witnesses = [], [], set()
    complete = True
    # the cheap enumerations first (a long search must not starve them of time)
    sweep = pcommon.serial_sweep(run, ('C07.',))
    sweep.update(direct_differential(run, tier))
    for label, gamma, timeout, ids, alph, maxdepth in plans:
        if run.out_of_time(40):
            run.cap('deadline before ' + label); complete = False
            continue
        t0 = time.time()
        delta, dcomplete, nsolo, tsolo = {}, {}, 0, 0
        for i in ids:
            s1 = solo_delta(run, gamma, timeout, i, alph, label + '/solo%d' % i)
            delta[i] = s1.delta; dcomplete[i] = s1.complete
            nsolo += len(s1.states); tsolo += s1.transitions
            for tag, text, sid, ev, cev, out in s1.violations:
                if tag.startswith('C07.'):
                    run.violation(tag, '[%s/solo%d] %s  (history: %s => %s)' % (label, i, text, ' | '.join(proto.ev_str(e) for e in s1.sym_history(sid)) or '-', proto.ev_str(ev)),
                                  s1.replay_obj(sid, ev, cev, {'clause': tag, 'search': label}), dedup=label + '|solo|' + tag)
        sp = pcommon.S(label, gamma, timeout, ids, alph(ids), maxdepth=maxdepth)
        kw = dict(sp); kw.pop('label')
        s = psearch.Search(run, kw.pop('services'), kw.pop('rules'), kw.pop('timeout'), kw.pop('ids'), kw.pop('alphabet'), label=label,
                           delta=delta, delta_complete=dcomplete, **kw)
        s.go()
        states += len(s.states) + nsolo; trans += s.transitions + tsolo
        witnesses |= s.witnesses
        complete = complete and s.complete
        for tag, text, sid, ev, cev, out in s.violations:
            if tag.startswith('C07.'):
                run.violation(tag, '[%s] %s  (history: %s => %s)' % (label, text, ' | '.join(proto.ev_str(e) for e in s.sym_history(sid)) or '-', proto.ev_str(ev)),
                              s.replay_obj(sid, ev, cev, {'clause': tag, 'search': label}), dedup=label + '|' + tag)
        n = pcommon.conformance(s, 100, run) if not run.out_of_time(20) else 0
        conf += n
        both_live = sum(1 for st in s.states if all(inst is not None for _, inst in st.M))
        per.append({'search': label, 'solo_states': nsolo, 'solo_transitions': tsolo, 'states': len(s.states), 'transitions': s.transitions,
                    'fixpoint': s.complete, 'levels': s.levels_done, 'states_with_all_clients_live': both_live, 'conformance_traces': n,
                    'solo_automaton_entries': {str(i): len(d) for i, d in delta.items()}, 'wall_s': round(time.time() - t0, 1)})
        if both_live < 10 and not run.violations and not run.capped:
            raise common.HarnessError('vacuous: clients were almost never live together in ' + label)
        samples.append({'search': label, 'history': [{'event': proto.ev_str(a), 'output': c} for a, b, c in s.trace(len(s.states) - 1)]})
    # ---- history independence for a newcomer (merge-soundness differential) on a rich solo alphabet
    merge_pairs = 0
    if not run.out_of_time(60):
        label = 'solo/hurry/login+drone/t30'
        sp = pcommon.S(label, 'login+drone', 30, [1], alpha.scen_hurry([1]))
        kw = dict(sp); kw.pop('label')
        s = psearch.Search(run, kw.pop('services'), kw.pop('rules'), kw.pop('timeout'), kw.pop('ids'), kw.pop('alphabet'), label=label, **kw)
        s.merge_cap = 6 if tier == 'quick' else 40
        s.go()
        states += len(s.states); trans += s.transitions
        complete = complete and s.complete
        n, bad = s.merge_check(limit=600 if tier == 'quick' else 6000)
        merge_pairs += n
        for text, rep in bad:
            run.violation('C07.history-dependence', '[%s] %s' % (label, text), rep, dedup='merge|' + text[:60])
        per.append({'search': label, 'states': len(s.states), 'transitions': s.transitions, 'fixpoint': s.complete, 'merged_history_pairs_compared': n})
        if n < 50 and not run.violations and not run.capped:
            raise common.HarnessError('vacuous: only %d merged history pairs were compared' % n)
    cov = {'states': states, 'transitions': trans, 'traces_validated_against_impl': conf, 'samples': samples, 'exhaustive': complete,
           'searches': per, 'witnesses': sorted(witnesses), 'merged_history_pairs_compared': merge_pairs, **sweep,
           'explanation': 'differential oracle with no hand-written expectation: the solo automaton of each client is recorded from the implementation, then every step of the '
                          'multi-client product search is compared with it; state of a client = its request record + module record + monitor record'}
    return run.finish(cov, assumptions=['per-client state projection (request record, xquery record, observer record) captures everything the daemon keeps per client',
                                        'service reference counts are not part of the projection (read only on reload, see C17)'])

# ---- direct form of the statement, with reloads in the picture ------------------------------------------------------
def interleavings(xs, ys):
    """all merges of two sequences that keep each one's own order"""
    if not xs:
        yield list(ys); return
    if not ys:
        yield list(xs); return
    for rest in interleavings(xs[1:], ys):
        yield [xs[0]] + rest
    for rest in interleavings(xs, ys[1:]):
        yield [ys[0]] + rest


def interleavings_n(seqs):
    """all merges of several sequences that keep each one's own order"""
    seqs = [q for q in seqs if q]
    if not seqs:
        yield []
        return
    for k, q in enumerate(seqs):
        for rest in interleavings_n(seqs[:k] + [q[1:]] + seqs[k + 1:]):
            yield [q[0]] + rest


def direct_differential(run, tier, prefixes=('C07.',), extras=True):
    """Client 1's conversation (incl. reloads of the service table on its time line, MORE challenges and their answers) is run
    alone and with every interleaving of a second client's traffic; everything written about client 1 must be the same up to
    the serial in its tag.  Covers what the product search leaves out: reload events and challenge-response flows."""
    b = build.build()
    services = [('login.svc', 'login'), ('drone.svc', 'dronecheck')]
    rules = pcommon.rules_for(services)
    moddir = os.path.join(b, 'mods-wrapped')
    conf = e1.conf_text(moddir, services=services, timeout=30, rules=rules)
    files = {'none.conf': e1.conf_text(moddir, services=[('drone.svc', 'dronecheck')], timeout=30, rules=rules),
             'orig.conf': conf,
             'other.conf': e1.conf_text(moddir, services=[('drone.svc', 'dronecheck'), ('ghost.svc', 'login')], timeout=30, rules=rules)}
    X = {
        'more-answer-after-removal': [('C', 1), ('P', 1, 'x'), ('X', 1, 'login.svc', 'cur', 'MORE'), ('RL', 'none.conf'), ('P', 1, 'x'), ('H', 1), ('X', 1, 'drone.svc', 'cur', 'OK')],
        'bang-more-answer-removal-readd': [('C', 1), ('H', 1), ('P', 1, 'bang'), ('X', 1, 'login.svc', 'cur', 'MORE'), ('P', 1, 'x'), ('RL', 'none.conf'), ('RL', 'other.conf'),
                                           ('X', 1, 'ghost.svc', 'cur', 'OKA'), ('X', 1, 'login.svc', 'cur', 'OKA'), ('X', 1, 'drone.svc', 'cur', 'OK')],
        'reload-twice-then-login': [('C', 1), ('P', 1, 'x'), ('RL', 'none.conf'), ('RL', 'orig.conf'), ('H', 1), ('X', 1, 'login.svc', 'cur', 'OKA'), ('X', 1, 'drone.svc', 'cur', 'OK')],
        'again-then-retry': [('C', 1), ('P', 1, 'x'), ('X', 1, 'login.svc', 'cur', 'AGAIN'), ('P', 1, 'x'), ('X', 1, 'login.svc', 'cur', 'OKA'), ('H', 1), ('X', 1, 'drone.svc', 'cur', 'OK')],
        'plain-more-round': [('C', 1), ('H', 1), ('P', 1, 'x'), ('X', 1, 'login.svc', 'cur', 'MORE'), ('P', 1, 'nobang'), ('X', 1, 'login.svc', 'cur', 'OKA'), ('X', 1, 'drone.svc', 'cur', 'NO')],
    }
    Y = {
        'pending-login': [('C', 2), ('P', 2, 'x')],
        'answered-login': [('C', 2), ('P', 2, 'x'), ('X', 2, 'login.svc', 'cur', 'OKA')],
        'hurried': [('C', 2), ('H', 2)],
        'challenged': [('C', 2), ('P', 2, 'bang'), ('X', 2, 'login.svc', 'cur', 'MORE')],
        'gone': [('C', 2), ('P', 2, 'x'), ('D', 2)],
        'unlinked': [('C', 2), ('P', 2, 'x'), ('X', 2, 'login.svc', 'cur', 'UNL')],
        'decided': [('C', 2), ('H', 2), ('X', 2, 'drone.svc', 'cur', 'OK')],
    }
    if tier == 'quick':
        Y = {k: Y[k] for k in ('pending-login', 'answered-login', 'challenged', 'unlinked', 'hurried', 'gone', 'decided')}

    def concrete(srv, syms):
        ctx = {'cur': {}, 'old': {}, 'serial': 0}
        out = []
        for ev in syms:
            if ev[0] == 'RL':
                out.append(('R', srv.path(ev[1])))
                continue
            out.append(proto.render(ev, ctx))
            if ev[0] == 'C':
                ctx['serial'] += 1
                ctx['cur'][ev[1]] = ctx['serial']
            elif ev[0] in ('D', 'T'):
                ctx['cur'].pop(ev[1], None)
        return out

    def about1(res, syms):
        """per step of client 1's own events (and reloads): the lines naming client 1 or carrying its tag"""
        rec = []
        for ev, r in zip(syms, res):
            mine = [psearch._norm_line(l) for l in r.out if (l.startswith('X ') and l.split(' ')[2].split('_')[0] == '1') or (len(l.split(' ')) > 1 and l.split(' ')[1] == '1' and l[0] in proto.CLIENT_CMDS)]
            if ev[0] == 'RL' or (len(ev) > 1 and ev[1] == 1):
                rec.append((proto.ev_str(ev), tuple(mine)))
            elif mine:
                rec.append(('!during %s' % proto.ev_str(ev), tuple(mine)))
        return rec

    world = [None]

    def observe(srv, syms, res, label):
        """the observer over a two-client trace (reloads are not its business: only clauses that do not depend on the service table)"""
        if world[0] is None:
            world[0] = proto.World(services, rules, srv.banner, 30)
        M = proto.initial_M([1, 2])
        ctx = {'cur': {}, 'old': {}, 'serial': 0}
        for ev, r in zip(syms, res):
            if ev[0] == 'RL':
                return          # after a reload the static service table of the observer no longer applies
            Mn, V, W = proto.step(world[0], M, ev, ctx, ctx['serial'] + 1, r.out)
            if ev[0] == 'C':
                ctx['serial'] += 1
                if ev[1] in ctx['cur']:
                    ctx['old'][ev[1]] = ctx['cur'][ev[1]]
                ctx['cur'][ev[1]] = ctx['serial']
            for j, inst in Mn:
                if inst is None and j in ctx['cur'] and not (ev[0] == 'C' and ev[1] == j):
                    ctx['old'][j] = ctx['cur'].pop(j)
            M = Mn
            for tag, text in V:
                if any(tag.startswith(p) for p in prefixes) and not tag.startswith('C07.'):
                    run.violation(tag, '[interleaving %s] %s  (events: %s)' % (label, text, ' | '.join(proto.ev_str(e) for e in syms)),
                                  {'engine': 'E1-direct', 'conf': conf, 'mix': [list(e) for e in syms]}, dedup='direct-obs|' + tag)

    n = 0
    with e1.Server(conf, builddir=b, files=files) as srv:
        for xn, xs in X.items():
            res, status, err, ex = srv.trace(concrete(srv, xs), 0)
            if status != 'ok':
                if run.violations or run.capped:
                    continue
                raise common.HarnessError('direct differential: baseline %s died: %s' % (xn, status))
            base = about1(res, xs)
            if not any(l for _, ls in base for l in ls):
                if run.violations or run.capped:
                    continue
                raise common.HarnessError('direct differential: baseline %s wrote nothing about client 1' % xn)
            for yn, ys in Y.items():
                for mix in interleavings(xs, ys):
                    if mix[0][1] != 1 and tier == 'quick' and n % 2:
                        pass
                    res, status, err, ex = srv.trace(concrete(srv, mix), 0)
                    n += 1
                    got = about1(res, mix) if status == 'ok' else status
                    if status == 'ok':
                        observe(srv, mix, res, xn + '+' + yn)
                    if got != base and any(p.startswith('C07') for p in prefixes):
                        k = next((i for i in range(min(len(got), len(base))) if got[i] != base[i]), None) if isinstance(got, list) else None
                        run.violation('C07.interleaving', 'client 1 (%s) with client 2 (%s) interleaved as [%s]: %s; alone: %s'
                                      % (xn, yn, ' | '.join(proto.ev_str(e) for e in mix), got[k] if k is not None else got, base[k] if k is not None else base),
                                      {'engine': 'E1-direct', 'conf': conf, 'x': xn, 'y': yn, 'mix': [list(e) for e in mix]}, dedup='direct|%s|%s' % (xn, yn))
        # ---- three clients: the one under observation has the HIGHEST id and is the oldest; a younger one on a lower id stays pending while a third
        # comes and goes (whatever the daemon derives from "the first / oldest / lowest request" is then not about the observed client)
        n3 = 0
        def about(res, syms, who):
            rec = []
            for ev, r in zip(syms, res):
                mine = [psearch._norm_line(l) for l in r.out if (l.startswith('X ') and l.split(' ')[2].split('_')[0] == str(who)) or (len(l.split(' ')) > 1 and l.split(' ')[1] == str(who) and l[0] in proto.CLIENT_CMDS)]
                if len(ev) > 1 and ev[1] == who:
                    rec.append((proto.ev_str(ev), tuple(mine)))
                elif mine:
                    rec.append(('!during %s' % proto.ev_str(ev), tuple(mine)))
            return rec
        V3 = {'login-then-drone': [('C', 3), ('P', 3, 'x'), ('H', 3), ('X', 3, 'login.svc', 'cur', 'OKA'), ('X', 3, 'drone.svc', 'cur', 'OK')],
              'refused': [('C', 3), ('H', 3), ('P', 3, 'x'), ('X', 3, 'drone.svc', 'cur', 'OK'), ('X', 3, 'login.svc', 'cur', 'NO')]}
        A1 = {'pending': [('C', 1)], 'pending-query': [('C', 1), ('P', 1, 'x')]}
        B2 = {'withdrawn': [('C', 2), ('D', 2)], 'registered': [('C', 2), ('T', 2)], 'decided': [('C', 2), ('H', 2), ('X', 2, 'drone.svc', 'cur', 'OK')]}
        for vn, vs in (V3.items() if extras else ()):
            res, status, err, ex = srv.trace(concrete(srv, vs), 0)
            if status != 'ok':
                if run.violations or run.capped:
                    continue
                raise common.HarnessError('three-client differential: baseline %s died: %s' % (vn, status))
            base3 = about(res, vs, 3)
            for an, as_ in A1.items():
                for bn, bs in B2.items():
                    if run.out_of_time(60):
                        run.cap('three-client differential cut short')
                        break
                    for mix in interleavings_n([vs, as_, bs]):
                        res, status, err, ex = srv.trace(concrete(srv, mix), 0)
                        n3 += 1
                        got = about(res, mix, 3) if status == 'ok' else status
                        if got != base3 and any(p.startswith('C07') for p in prefixes):
                            k = next((i for i in range(min(len(got), len(base3))) if got[i] != base3[i]), None) if isinstance(got, list) else None
                            run.violation('C07.interleaving3', 'client 3 (%s) with client 1 (%s) and client 2 (%s) interleaved as [%s]: %s; alone: %s'
                                          % (vn, an, bn, ' | '.join(proto.ev_str(e) for e in mix), got[k] if k is not None else got, base3[k] if k is not None else base3),
                                          {'engine': 'E1-direct', 'conf': conf, 'mix': [list(e) for e in mix]}, dedup='direct3|%s' % vn)
        # ---- the same conversation behind other clients' traffic delivered in one burst: the daemon reads its input in 4096-byte pieces, and where a
        # piece ends depends only on how much OTHER clients' traffic is queued ahead.  For every byte offset o of client 1's conversation the burst is
        # sized so that the first (and, separately, the second) read boundary falls exactly at o; what is written about client 1 must not change.
        nb = 0
        conv = ['1 C 10.0.0.1 1111 10.9.9.9 6667', '1 N host1.example.net', '1 u ident1', '1 n Nick1', '1 U user1 :Real Name One', '1 P :+x acct1 pass1',
                '-1 X login.svc 1_2 :MORE say more', '1 P :the answer', '-1 X login.svc 1_2 :OK acct1:7', '-1 X drone.svc 1_2 :OK']
        conv_b = ('\n'.join(conv) + '\n').encode()
        head = b'2 C 10.0.0.2 2222 10.9.9.9 6667\n'
        def about1_flat(res):
            return [psearch._norm_line(l) for r in res for l in r.out if (l.startswith('X ') and l.split(' ')[2].split('_')[0] == '1') or (len(l.split(' ')) > 1 and l.split(' ')[1] == '1' and l[0] in proto.CLIENT_CMDS)]
        def filler(nbytes):
            body = b''
            k = 0
            while len(head) + len(body) + 40 < nbytes:
                body += b'2 n Nick%04d\n' % k
                k += 1
            pad = nbytes - len(head) - len(body)
            # the rest is one more line of client 2's traffic, padded to the byte
            last = b'2 N ' + b'h' * max(pad - 5, 1) + b'\n'
            return head + body + last
        if extras:
            res, status, err, ex = srv.trace([('L', head)] + [('L', (l + '\n').encode()) for l in conv], 0)
        base_b = about1_flat(res) if extras and status == 'ok' else None
        if not extras:
            pass
        elif base_b is None or not any(l.startswith('R 1 ') for l in base_b):
            if not (run.violations or run.capped):
                raise common.HarnessError('burst differential: the paced baseline did not end in an R verdict: %r %s' % (base_b, status))
        else:
            for boundary in (4096, 8192):
                for o in range(0, len(conv_b) + 1):
                    if run.out_of_time(45):
                        run.cap('burst differential stopped at offset %d of boundary %d' % (o, boundary))
                        break
                    f = filler(boundary - o)
                    if len(f) != boundary - o:
                        continue
                    res, status, err, ex = srv.trace([('L', f + conv_b)], 0)
                    nb += 1
                    got = about1_flat(res) if status == 'ok' else status
                    if got != base_b and any(p.startswith('C07') for p in prefixes):
                        run.violation('C07.burst', 'client 1 behind %d bytes of client 2\'s traffic in one burst (read boundary %d at byte %d of its own lines, inside %r): %r; paced: %r'
                                      % (len(f), boundary, o, conv_b[max(0, o - 20):o + 20], got, base_b),
                                      {'engine': 'E1-direct', 'conf': conf, 'burst_filler_bytes': len(f), 'offset': o}, dedup='burst|%d' % boundary)
    return {'direct_differential_traces': n, 'direct_differential_histories': {'client1': list(X), 'client2': list(Y)}, 'burst_boundary_offsets_tried': nb, 'three_client_interleavings': n3}


def replay(obj):
    r = obj['replay']
    if r.get('engine') == 'E1-direct':
        print(obj['what']); print('re-run: bin/check C07 quick (deterministic enumeration)')
        return 1
    if r.get('engine') == 'E1-merge':
        b = build.build()
        outs = []
        with e1.Server(r['conf'], builddir=b) as srv:
            for hist, ser in ((r['hist_a'], r['serial_a']), (r['hist_b'], r['serial_b'])):
                ctx = {'cur': {r['id']: ser + 1}, 'old': {}, 'serial': ser}
                conc = [proto.render(tuple(e), ctx) for e in r['suffix']]
                res, status, err, ex = srv.trace([tuple(h) for h in hist] + conc, 0)
                outs.append([[psearch._norm_line(l) for l in x.out] for x in res[len(hist):]])
                print('history %s\n  -> %s' % ([h[1] if len(h) > 1 else h[0] for h in hist], outs[-1]))
        print('DIFFERENT' if outs[0] != outs[1] else 'same')
        return 1 if outs[0] != outs[1] else 0
    if r.get('engine') == 'E1-sweep':
        print(obj['what']); print('re-run: bin/check %s quick (deterministic enumeration)' % obj['property'])
        return 1
    return pcommon.replay(obj)
