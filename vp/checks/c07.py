"""C07 - concurrent clients do not interfere (DESIGN 5/C07).

Phase 1 records, from the implementation itself, each client's solo automaton delta_i(state, event) ->
(state', normalised output) by a closed search with that client alone.  Phase 2 explores the clients
together: every step must (a) give the acting client exactly delta_i's output and successor state for its
own per-client state, (b) name no other client, (c) leave every other client's part of the state untouched.
Because the product search closes, this decides every interleaving of every pair of histories over the
alphabet, of any length."""
import os, time
from . import pcommon
from .. import common, build, psearch, alpha, e1, proto

def solo_delta(run, gamma, timeout, i, alph, label):
    sp = pcommon.S(label, gamma, timeout, [i], alph([i]))
    kw = dict(sp); kw.pop('label')
    s = psearch.Search(run, kw.pop('services'), kw.pop('rules'), kw.pop('timeout'), kw.pop('ids'), kw.pop('alphabet'), label=label, record_delta=True, **kw)
    s.go()
    return s

def main(tier):
    run = common.Run('C07', 'model_checking', tier)
    try:
        build.build()
    except RuntimeError as e:
        raise common.HarnessError(str(e))
    plans = []   # (label, gamma, timeout, ids, alphabet fn, maxdepth)
    if tier == 'quick':
        plans.append(('pair/tiny/login+drone/t30', 'login+drone', 30, [1, 2], alpha.tiny, None))
        plans.append(('pair/reduced/login+drone/t30', 'login+drone', 30, [1, 2], alpha.reduced, 5))
    else:
        plans.append(('pair/tiny/login+drone/t30', 'login+drone', 30, [1, 2], alpha.tiny, None))
        plans.append(('pair/tiny/extreme-ids/login+drone/t30', 'login+drone', 30, [2147483647, -2147483648], alpha.tiny, None))
        plans.append(('pair/reduced/login+drone/t30', 'login+drone', 30, [1, 2], alpha.reduced, None))
        plans.append(('pair/reduced/ipr+comb/t0', 'ipr+comb', 0, [1, 2], alpha.reduced, 7))
        plans.append(('triple/tiny/login+drone/t30', 'login+drone', 30, [1, 2, 3], alpha.tiny, None))
        plans.append(('triple/reduced/extreme-ids/t30', 'login+drone', 30, [2147483647, -2147483648, 0], alpha.reduced, 4))
    states = trans = conf = 0
    per, samples, witnesses = [], [], set()
    complete = True
    # the cheap enumerations first (a long search must not starve them of time)
    sweep = pcommon.serial_sweep(run, ('C07.',))
    sweep.update(direct_differential(run, tier))
    for label, gamma, timeout, ids, alph, maxdepth in plans:
        if run.out_of_time(40):
            run.cap('deadline before ' + label); complete = False
            continue
        t0 = time.time()
        delta, dcomplete, nsolo, tsolo = {}, {}, 0, 0
        for i in ids:
            s1 = solo_delta(run, gamma, timeout, i, alph, label + '/solo%d' % i)
            delta[i] = s1.delta; dcomplete[i] = s1.complete
            nsolo += len(s1.states); tsolo += s1.transitions
            for tag, text, sid, ev, cev, out in s1.violations:
                if tag.startswith('C07.'):
                    run.violation(tag, '[%s/solo%d] %s  (history: %s => %s)' % (label, i, text, ' | '.join(proto.ev_str(e) for e in s1.sym_history(sid)) or '-', proto.ev_str(ev)),
                                  s1.replay_obj(sid, ev, cev, {'clause': tag, 'search': label}), dedup=label + '|solo|' + tag)
        sp = pcommon.S(label, gamma, timeout, ids, alph(ids), maxdepth=maxdepth)
        kw = dict(sp); kw.pop('label')
        s = psearch.Search(run, kw.pop('services'), kw.pop('rules'), kw.pop('timeout'), kw.pop('ids'), kw.pop('alphabet'), label=label,
                           delta=delta, delta_complete=dcomplete, **kw)
        s.go()
        states += len(s.states) + nsolo; trans += s.transitions + tsolo
        witnesses |= s.witnesses
        complete = complete and s.complete
        for tag, text, sid, ev, cev, out in s.violations:
            if tag.startswith('C07.'):
                run.violation(tag, '[%s] %s  (history: %s => %s)' % (label, text, ' | '.join(proto.ev_str(e) for e in s.sym_history(sid)) or '-', proto.ev_str(ev)),
                              s.replay_obj(sid, ev, cev, {'clause': tag, 'search': label}), dedup=label + '|' + tag)
        n = pcommon.conformance(s, 100, run) if not run.out_of_time(20) else 0
        conf += n
        both_live = sum(1 for st in s.states if all(inst is not None for _, inst in st.M))
        per.append({'search': label, 'solo_states': nsolo, 'solo_transitions': tsolo, 'states': len(s.states), 'transitions': s.transitions,
                    'fixpoint': s.complete, 'levels': s.levels_done, 'states_with_all_clients_live': both_live, 'conformance_traces': n,
                    'solo_automaton_entries': {str(i): len(d) for i, d in delta.items()}, 'wall_s': round(time.time() - t0, 1)})
        if both_live < 10 and not run.violations and not run.capped:
            raise common.HarnessError('vacuous: clients were almost never live together in ' + label)
        samples.append({'search': label, 'history': [{'event': proto.ev_str(a), 'output': c} for a, b, c in s.trace(len(s.states) - 1)]})
    # ---- history independence for a newcomer (merge-soundness differential) on a rich solo alphabet
    merge_pairs = 0
    if not run.out_of_time(60):
        label = 'solo/hurry/login+drone/t30'
        sp = pcommon.S(label, 'login+drone', 30, [1], alpha.scen_hurry([1]))
        kw = dict(sp); kw.pop('label')
        s = psearch.Search(run, kw.pop('services'), kw.pop('rules'), kw.pop('timeout'), kw.pop('ids'), kw.pop('alphabet'), label=label, **kw)
        s.merge_cap = 6 if tier == 'quick' else 40
        s.go()
        states += len(s.states); trans += s.transitions
        complete = complete and s.complete
        n, bad = s.merge_check(limit=600 if tier == 'quick' else 6000)
        merge_pairs += n
        for text, rep in bad:
            run.violation('C07.history-dependence', '[%s] %s' % (label, text), rep, dedup='merge|' + text[:60])
        per.append({'search': label, 'states': len(s.states), 'transitions': s.transitions, 'fixpoint': s.complete, 'merged_history_pairs_compared': n})
        if n < 50 and not run.violations and not run.capped:
            raise common.HarnessError('vacuous: only %d merged history pairs were compared' % n)
    cov = {'states': states, 'transitions': trans, 'traces_validated_against_impl': conf, 'samples': samples, 'exhaustive': complete,
           'searches': per, 'witnesses': sorted(witnesses), 'merged_history_pairs_compared': merge_pairs, **sweep,
           'explanation': 'differential oracle with no hand-written expectation: the solo automaton of each client is recorded from the implementation, then every step of the '
                          'multi-client product search is compared with it; state of a client = its request record + module record + monitor record'}
    return run.finish(cov, assumptions=['per-client state projection (request record, xquery record, observer record) captures everything the daemon keeps per client',
                                        'service reference counts are not part of the projection (read only on reload, see C17)'])

# ---- direct form of the statement, with reloads in the picture ------------------------------------------------------
def interleavings(xs, ys):
    """all merges of two sequences that keep each one's own order"""
    if not xs:
        yield list(ys); return
    if not ys:
        yield list(xs); return
    for rest in interleavings(xs[1:], ys):
        yield [xs[0]] + rest
    for rest in interleavings(xs, ys[1:]):
        yield [ys[0]] + rest


def direct_differential(run, tier, prefixes=('C07.',)):
    """Client 1's conversation (incl. reloads of the service table on its time line, MORE challenges and their answers) is run
    alone and with every interleaving of a second client's traffic; everything written about client 1 must be the same up to
    the serial in its tag.  Covers what the product search leaves out: reload events and challenge-response flows."""
    b = build.build()
    services = [('login.svc', 'login'), ('drone.svc', 'dronecheck')]
    rules = pcommon.rules_for(services)
    moddir = os.path.join(b, 'mods-wrapped')
    conf = e1.conf_text(moddir, services=services, timeout=30, rules=rules)
    files = {'none.conf': e1.conf_text(moddir, services=[('drone.svc', 'dronecheck')], timeout=30, rules=rules),
             'orig.conf': conf,
             'other.conf': e1.conf_text(moddir, services=[('drone.svc', 'dronecheck'), ('ghost.svc', 'login')], timeout=30, rules=rules)}
    X = {
        'more-answer-after-removal': [('C', 1), ('P', 1, 'x'), ('X', 1, 'login.svc', 'cur', 'MORE'), ('RL', 'none.conf'), ('P', 1, 'x'), ('H', 1), ('X', 1, 'drone.svc', 'cur', 'OK')],
        'bang-more-answer-removal-readd': [('C', 1), ('H', 1), ('P', 1, 'bang'), ('X', 1, 'login.svc', 'cur', 'MORE'), ('P', 1, 'x'), ('RL', 'none.conf'), ('RL', 'other.conf'),
                                           ('X', 1, 'ghost.svc', 'cur', 'OKA'), ('X', 1, 'login.svc', 'cur', 'OKA'), ('X', 1, 'drone.svc', 'cur', 'OK')],
        'reload-twice-then-login': [('C', 1), ('P', 1, 'x'), ('RL', 'none.conf'), ('RL', 'orig.conf'), ('H', 1), ('X', 1, 'login.svc', 'cur', 'OKA'), ('X', 1, 'drone.svc', 'cur', 'OK')],
        'again-then-retry': [('C', 1), ('P', 1, 'x'), ('X', 1, 'login.svc', 'cur', 'AGAIN'), ('P', 1, 'x'), ('X', 1, 'login.svc', 'cur', 'OKA'), ('H', 1), ('X', 1, 'drone.svc', 'cur', 'OK')],
        'plain-more-round': [('C', 1), ('H', 1), ('P', 1, 'x'), ('X', 1, 'login.svc', 'cur', 'MORE'), ('P', 1, 'nobang'), ('X', 1, 'login.svc', 'cur', 'OKA'), ('X', 1, 'drone.svc', 'cur', 'NO')],
    }
    Y = {
        'pending-login': [('C', 2), ('P', 2, 'x')],
        'answered-login': [('C', 2), ('P', 2, 'x'), ('X', 2, 'login.svc', 'cur', 'OKA')],
        'hurried': [('C', 2), ('H', 2)],
        'challenged': [('C', 2), ('P', 2, 'bang'), ('X', 2, 'login.svc', 'cur', 'MORE')],
        'gone': [('C', 2), ('P', 2, 'x'), ('D', 2)],
        'unlinked': [('C', 2), ('P', 2, 'x'), ('X', 2, 'login.svc', 'cur', 'UNL')],
        'decided': [('C', 2), ('H', 2), ('X', 2, 'drone.svc', 'cur', 'OK')],
    }
    if tier == 'quick':
        Y = {k: Y[k] for k in ('pending-login', 'answered-login', 'challenged', 'unlinked', 'hurried', 'gone', 'decided')}

    def concrete(srv, syms):
        ctx = {'cur': {}, 'old': {}, 'serial': 0}
        out = []
        for ev in syms:
            if ev[0] == 'RL':
                out.append(('R', srv.path(ev[1])))
                continue
            out.append(proto.render(ev, ctx))
            if ev[0] == 'C':
                ctx['serial'] += 1
                ctx['cur'][ev[1]] = ctx['serial']
            elif ev[0] in ('D', 'T'):
                ctx['cur'].pop(ev[1], None)
        return out

    def about1(res, syms):
        """per step of client 1's own events (and reloads): the lines naming client 1 or carrying its tag"""
        rec = []
        for ev, r in zip(syms, res):
            mine = [psearch._norm_line(l) for l in r.out if (l.startswith('X ') and l.split(' ')[2].split('_')[0] == '1') or (len(l.split(' ')) > 1 and l.split(' ')[1] == '1' and l[0] in proto.CLIENT_CMDS)]
            if ev[0] == 'RL' or (len(ev) > 1 and ev[1] == 1):
                rec.append((proto.ev_str(ev), tuple(mine)))
            elif mine:
                rec.append(('!during %s' % proto.ev_str(ev), tuple(mine)))
        return rec

    world = [None]

    def observe(srv, syms, res, label):
        """the observer over a two-client trace (reloads are not its business: only clauses that do not depend on the service table)"""
        if world[0] is None:
            world[0] = proto.World(services, rules, srv.banner, 30)
        M = proto.initial_M([1, 2])
        ctx = {'cur': {}, 'old': {}, 'serial': 0}
        for ev, r in zip(syms, res):
            if ev[0] == 'RL':
                return          # after a reload the static service table of the observer no longer applies
            Mn, V, W = proto.step(world[0], M, ev, ctx, ctx['serial'] + 1, r.out)
            if ev[0] == 'C':
                ctx['serial'] += 1
                if ev[1] in ctx['cur']:
                    ctx['old'][ev[1]] = ctx['cur'][ev[1]]
                ctx['cur'][ev[1]] = ctx['serial']
            for j, inst in Mn:
                if inst is None and j in ctx['cur'] and not (ev[0] == 'C' and ev[1] == j):
                    ctx['old'][j] = ctx['cur'].pop(j)
            M = Mn
            for tag, text in V:
                if any(tag.startswith(p) for p in prefixes) and not tag.startswith('C07.'):
                    run.violation(tag, '[interleaving %s] %s  (events: %s)' % (label, text, ' | '.join(proto.ev_str(e) for e in syms)),
                                  {'engine': 'E1-direct', 'conf': conf, 'mix': [list(e) for e in syms]}, dedup='direct-obs|' + tag)

    n = 0
    with e1.Server(conf, builddir=b, files=files) as srv:
        for xn, xs in X.items():
            res, status, err, ex = srv.trace(concrete(srv, xs), 0)
            if status != 'ok':
                if run.violations or run.capped:
                    continue
                raise common.HarnessError('direct differential: baseline %s died: %s' % (xn, status))
            base = about1(res, xs)
            if not any(l for _, ls in base for l in ls):
                if run.violations or run.capped:
                    continue
                raise common.HarnessError('direct differential: baseline %s wrote nothing about client 1' % xn)
            for yn, ys in Y.items():
                for mix in interleavings(xs, ys):
                    if mix[0][1] != 1 and tier == 'quick' and n % 2:
                        pass
                    res, status, err, ex = srv.trace(concrete(srv, mix), 0)
                    n += 1
                    got = about1(res, mix) if status == 'ok' else status
                    if status == 'ok':
                        observe(srv, mix, res, xn + '+' + yn)
                    if got != base and any(p.startswith('C07') for p in prefixes):
                        k = next((i for i in range(min(len(got), len(base))) if got[i] != base[i]), None) if isinstance(got, list) else None
                        run.violation('C07.interleaving', 'client 1 (%s) with client 2 (%s) interleaved as [%s]: %s; alone: %s'
                                      % (xn, yn, ' | '.join(proto.ev_str(e) for e in mix), got[k] if k is not None else got, base[k] if k is not None else base),
                                      {'engine': 'E1-direct', 'conf': conf, 'x': xn, 'y': yn, 'mix': [list(e) for e in mix]}, dedup='direct|%s|%s' % (xn, yn))
    return {'direct_differential_traces': n, 'direct_differential_histories': {'client1': list(X), 'client2': list(Y)}}


def replay(obj):
    r = obj['replay']
    if r.get('engine') == 'E1-direct':
        print(obj['what']); print('re-run: bin/check C07 quick (deterministic enumeration)')
        return 1
    if r.get('engine') == 'E1-merge':
        b = build.build()
        outs = []
        with e1.Server(r['conf'], builddir=b) as srv:
            for hist, ser in ((r['hist_a'], r['serial_a']), (r['hist_b'], r['serial_b'])):
                ctx = {'cur': {r['id']: ser + 1}, 'old': {}, 'serial': ser}
                conc = [proto.render(tuple(e), ctx) for e in r['suffix']]
                res, status, err, ex = srv.trace([tuple(h) for h in hist] + conc, 0)
                outs.append([[psearch._norm_line(l) for l in x.out] for x in res[len(hist):]])
                print('history %s\n  -> %s' % ([h[1] if len(h) > 1 else h[0] for h in hist], outs[-1]))
        print('DIFFERENT' if outs[0] != outs[1] else 'same')
        return 1 if outs[0] != outs[1] else 0
    if r.get('engine') == 'E1-sweep':
        print(obj['what']); print('re-run: bin/check %s quick (deterministic enumeration)' % obj['property'])
        return 1
    return pcommon.replay(obj)
