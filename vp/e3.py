"""Engine E3: the unmodified daemon (plain modules, real event loop, real pipes/signals/timers) as a black box."""
import os, subprocess, tempfile, threading, time, shutil, signal
from . import build as _build, e1

ENV = {'ASAN_OPTIONS': 'exitcode=86:abort_on_error=0:detect_leaks=1:allocator_may_return_null=1',
       'UBSAN_OPTIONS': 'print_stacktrace=0:halt_on_error=0', 'LSAN_OPTIONS': 'exitcode=87'}


def plain_conf(b, **kw):
    kw.setdefault('modules', ('iauth', 'iauth_xquery', 'iauth_class'))
    return e1.conf_text(os.path.join(b, 'mods-plain'), **kw)


class Daemon:
    """A running plain daemon; write() input, signal(), read what it has written so far, close() -> exit code."""

    def __init__(self, conf, b=None, debug=False, env=None, cwd=None, extra_args=(), symlink=False):
        self.b = b or _build.build()
        self.dir = cwd or tempfile.mkdtemp(prefix='e3-', dir=self.b)
        self.own_dir = cwd is None
        self.conf_path = os.path.join(self.dir, 'iauthd.conf')
        self.symlink = symlink
        self.gen = 0
        from . import e1 as _e1
        conf = _e1.rebase_conf(conf, self.b)
        if symlink:
            # the -f path is a symbolic link; new configurations are published by re-pointing it (publish())
            with open(os.path.join(self.dir, 'gen0.conf'), 'w') as f:
                f.write(conf)
            os.symlink('gen0.conf', self.conf_path)
        else:
            with open(self.conf_path, 'w') as f:
                f.write(conf)
        e = dict(os.environ); e.update(ENV)
        if env:
            e.update(env)
        args = [os.path.join(self.b, 'iauthd-c'), '-n', '-f', self.conf_path] + (['-d'] if debug else []) + list(extra_args)
        self.p = subprocess.Popen(args, stdin=subprocess.PIPE, stdout=subprocess.PIPE, stderr=subprocess.PIPE, env=e, cwd=self.dir)
        self.out = bytearray()
        self.err = bytearray()
        self._lock = threading.Lock()
        self._to = threading.Thread(target=self._pump, args=(self.p.stdout, self.out), daemon=True)
        self._te = threading.Thread(target=self._pump, args=(self.p.stderr, self.err), daemon=True)
        self._to.start(); self._te.start()

    def _pump(self, f, buf):
        while True:
            d = f.read1(65536) if hasattr(f, 'read1') else f.read(65536)
            if not d:
                break
            with self._lock:
                buf += d

    def wait_for(self, pred, timeout=30.0):
        t0 = time.time()
        while time.time() - t0 < timeout:
            with self._lock:
                snap = bytes(self.out)
            if pred(snap):
                return True
            if self.p.poll() is not None:
                time.sleep(0.02)
                with self._lock:
                    return pred(bytes(self.out))
            time.sleep(0.002)
        return False

    def wait_banner(self, timeout=30.0):
        return self.wait_for(lambda o: b'\nO ' in b'\n' + o and o.endswith(b'\n') or (b'\na\n' in b'\n' + o and o.count(b'\n') >= 2 and time.time() > 0 and False), timeout)

    def write(self, data):
        try:
            self.p.stdin.write(data); self.p.stdin.flush()
            return True
        except (BrokenPipeError, OSError):
            return False

    def publish(self, conf):
        """Puts a new configuration in place: rewritten in place, or (symlink mode) written to a new file to which the link is atomically re-pointed."""
        if not self.symlink:
            with open(self.conf_path, 'w') as f:
                f.write(conf)
            return
        self.gen += 1
        name = 'gen%d.conf' % self.gen
        with open(os.path.join(self.dir, name), 'w') as f:
            f.write(conf)
        tmp = self.conf_path + '.new'
        os.symlink(name, tmp)
        os.replace(tmp, self.conf_path)

    def signal(self, sig):
        self.p.send_signal(sig)

    def alive(self):
        return self.p.poll() is None

    def lines(self):
        with self._lock:
            return bytes(self.out).decode('latin-1').split('\n')

    def close(self, timeout=40.0):
        """Close stdin (end of input) and wait. Returns (rc, stdout lines, stderr text)."""
        try:
            self.p.stdin.close()
        except Exception:
            pass
        try:
            rc = self.p.wait(timeout=timeout)
        except subprocess.TimeoutExpired:
            self.p.kill(); self.p.wait()
            rc = 'timeout'
        self._to.join(2); self._te.join(2)
        out = bytes(self.out).decode('latin-1').split('\n')
        if out and out[-1] == '':
            out.pop()
        err = bytes(self.err).decode('latin-1')
        if self.own_dir:
            shutil.rmtree(self.dir, ignore_errors=True)
        return rc, out, err


def run_stream(conf, chunks, b=None, gap=0.0, debug=False, timeout=40.0, wait_quiet=None):
    """Feed chunks (each by its own write(), `gap` seconds apart) after the banner, close stdin, collect."""
    d = Daemon(conf, b=b, debug=debug)
    ok = d.wait_banner()
    for c in chunks:
        if not d.write(c):
            break
        if gap:
            time.sleep(gap)
    if wait_quiet:
        time.sleep(wait_quiet)
    rc, out, err = d.close(timeout)
    return rc, out, err, ok
