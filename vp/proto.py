"""Protocol vocabulary for the E1 searches (DESIGN 5.0) and the trace monitors M01-M06, M09, M10.

Monitors are written from the property statements over what the *server* can observe: the events it
feeds and the lines that come back.  They deliberately do not mirror holds / soft_holds / bit masks.
Everything here is pure: step(state, ...) -> (state', violations, witnesses) over hashable tuples so that
monitor state can be part of the search key (the search explores the product automaton).
"""
import re, fnmatch, ipaddress
from collections import namedtuple

LOGIN_TYPES = ('login', 'login-ipr', 'combined')

# ---- client universe -------------------------------------------------------------------------------
CLIENTS = {
    1: dict(addr='10.0.0.1', port=1111, addr2='2001:db8:0:1::77', port2=7001, laddr='10.9.9.9', lport=6667, host='host1.example.net', ident='ident1',
            nick='Nick1', user='user1', real='Real Name 1'),
    2: dict(addr='2001:db8::2', port=2222, addr2='10.22.0.2', port2=7002, laddr='10.9.9.9', lport=6667, host='host2.example.org', ident='ident2',
            nick='Nick2', user='user2', real='Real Name 2'),
    3: dict(addr='192.168.3.3', port=3333, laddr='10.9.9.9', lport=6667, host='host3.example.com', ident='ident3',
            nick='Nick3', user='user3', real='Real Name 3'),
    2147483647: dict(addr='10.0.0.7', port=7777, laddr='10.9.9.9', lport=6667, host='host7.example.net', ident='ident7',
                     nick='Nick7', user='user7', real='Real Name 7'),
    -2147483648: dict(addr='10.0.0.8', port=8888, laddr='10.9.9.9', lport=6667, host='host8.example.net', ident='ident8',
                      nick='Nick8', user='user8', real='Real Name 8'),
    0: dict(addr='10.0.0.9', port=9999, laddr='10.9.9.9', lport=6667, host='host9.example.net', ident='ident9',
            nick='Nick9', user='user9', real='Real Name 9'),
}

# password menu: key -> (text after "P :", well-formed?, mode prefix, credentials)
PASSWORDS = {
    'x':    ('+x acctA passA', True),
    'bang': ('+! acctB passB', True),
    'nobang': ('-! acctC passC', True),
    'xbang': ('+x! acctD pass D', True),
    'rebang': ('-!+! acctE passE', True),      # a mode cleared and set again within one prefix: net effect +!
    'bangword': ('+! hunter2', False),          # mode prefix followed by a single word: not of the <modes> <account> <password> shape
    'nopass': ('nopass', False),
    'onlyacct': ('+x onlyacct', False),
    'hello': ('hello world', False),
}

REPLY_KINDS = ('OK', 'OKA', 'OKS', 'OKE', 'NO', 'NOB', 'AGAIN', 'MORE', 'UNL', 'BLAH', 'BLAHO', 'BLAHE')      # NOB: a refusal whose message is empty - the reply is the bare word NO
ACCOUNT_KINDS = ('OKA', 'OKS', 'OKT')      # OK replies that carry an account (OKS: a shorter one without stamp suffix; OKT: followed by free text)
TAG_KINDS = ('cur', 'old', 'bare', 'trunc', 'noid', 'junk', 'zz', 'wrongserial', 'wideid', 'wideserial')
# wideid / wideserial: the live tag with 2^32 added to the id / the serial - numbers that denote somebody else, whatever a 32-bit variable makes of them
MALFORMED_TAGS = ('bare', 'trunc', 'noid', 'junk', 'zz', 'wrongserial', 'wideid', 'wideserial')


def account_for(i, svc):
    return 'ac%s%s' % (abs(i) % 100, re.sub(r'[^a-z0-9]', '', svc)[:6])


def reply_text(kind, i, svc):
    """Text of a service reply.  A client entry may override texts per kind (CLIENTS[i]['replies'][kind]) - used by the
    text-dimension enumerations of C05."""
    ov = (CLIENTS.get(i) or {}).get('replies')
    if ov and kind in ov:
        return ov[kind]
    return {
        'OK': 'OK', 'OKA': 'OK %s:7' % account_for(i, svc), 'OKS': 'OK s%d' % (abs(i) % 10), 'OKE': 'OK ', 'OKT': 'OK t%d:5 last seen from 2 other sessions' % (abs(i) % 10),
        'NO': 'NO go away %s from %s' % (i, svc), 'NOB': 'NO', 'AGAIN': 'AGAIN try again %s' % i,
        'MORE': 'MORE say more %s' % i, 'UNL': None, 'BLAH': 'BLAH what', 'BLAHO': 'O operator', 'BLAHE': '',      # BLAHO / BLAHE: a clipped keyword, an empty reply - no answer either
    }[kind]


def vouched_account(kind, i, svc):
    """The account an OK reply vouches: the text after "OK ", cut at the first space and at 64 characters."""
    return reply_text(kind, i, svc)[3:].split(' ')[0][:64]


def idhex(i):
    return '%x' % (i & 0xffffffff)


def tag_text(tagkind, i, ctx):
    """ctx: dict with cur[i], old[i] serials (ints) or None."""
    h = idhex(i)
    if tagkind == 'cur':
        s = ctx['cur'].get(i)
        return None if s is None else '%s_%x' % (h, s)
    if tagkind == 'old':
        s = ctx['old'].get(i)
        return None if s is None else '%s_%x' % (h, s)
    s = ctx['cur'].get(i) or 1
    return {'bare': h, 'trunc': h + '_', 'noid': '_%x' % s, 'junk': '%s_%xx' % (h, s), 'zz': 'zz_%x' % s,
            'wrongserial': '%s_%x' % (h, s + 7), 'wideid': '1%08x_%x' % (i & 0xffffffff, s), 'wideserial': '%s_1%08x' % (h, s)}[tagkind]


def render(ev, ctx):
    """symbolic event -> concrete E1 event, or None if its precondition is false (disabled)."""
    k = ev[0]
    if k == 'E':
        return ('E',)
    if k == 'TO':
        return ('T', ev[1])
    if k == 'TOO':      # a request timer that belongs to no live request fires
        return ('O',)
    if k == 'RL':
        return ('R', ev[1])
    if k == 'RAW':
        return ('L', ev[1])
    i = ev[1]
    c = CLIENTS[i]
    if k == 'C':
        return ('L', '%d C %s %d %s %d\n' % (i, c['addr'], c['port'], c['laddr'], c['lport']))
    if k == 'C3':       # the same id announced from the same address but another port
        return ('L', '%d C %s %d %s %d\n' % (i, c['addr'], c['port2'], c['laddr'], c['lport']))
    if k == 'C2':       # the same id announced from another address and port
        return ('L', '%d C %s %d %s %d\n' % (i, c['addr2'], c['port2'], c['laddr'], c['lport']))
    if k == 'N':
        return ('L', '%d N %s\n' % (i, c['host']))
    if k == 'd':
        return ('L', '%d d\n' % i)
    if k == 'u':
        return ('L', '%d u %s\n' % (i, c['ident']))
    if k == 'u0':
        return ('L', '%d u\n' % i)
    if k == 'n':
        return ('L', '%d n %s\n' % (i, c['nick']))
    if k == 'U':
        return ('L', '%d U %s :%s\n' % (i, c['user'], c['real']))
    if k in ('H', 'D', 'T'):
        return ('L', '%d %s\n' % (i, k))
    if k == 'P':
        return ('L', '%d P :%s\n' % (i, PASSWORDS[ev[2]][0]))
    if k == 'X':
        _, i, svc, tagkind, rk = ev
        tag = tag_text(tagkind, i, ctx)
        if tag is None:
            return None
        if rk == 'UNL':
            return ('L', '-1 x %s %s :Server not online\n' % (svc, tag))
        return ('L', '-1 X %s %s :%s\n' % (svc, tag, reply_text(rk, i, svc)))
    raise ValueError(ev)


def ev_str(ev):
    return ' '.join(str(x) for x in ev)


# ---- line grammar (C09 validator, written from ircu's doc/readme.iauth) ----------------------------
CLIENT_CMDS = 'oUuNIMCdDRkK'
_re_client = re.compile(r'^([oUuNIMCdDRkK]) (-?\d+) (\S+) (\d+)(?: (.*))?$')
_re_x = re.compile(r'^X (\S+) (\S+) :(.*)$')
_re_global = [re.compile(p) for p in (
    r'^V :.+$', r'^O [A-Za-z]+$', r'^a$', r'^A \S+ :.*$', r'^s$', r'^S \S+ :.*$', r'^> :.*$', r'^G -?\d+$')]

ParsedLine = namedtuple('ParsedLine', 'kind cmd id ip port rest svc tag text')


def parse_line(line):
    """Returns ParsedLine(kind in client|x|global|bad, ...)."""
    if '\r' in line or '\0' in line or '\n' in line:
        return ParsedLine('bad', None, None, None, None, None, None, None, 'control character')
    m = _re_client.match(line)
    if m:
        cmd, cid, ip, port, rest = m.group(1), int(m.group(2)), m.group(3), int(m.group(4)), m.group(5)
        ok = True
        if cmd in 'dD' and cmd == 'd':
            ok = rest is None
        elif cmd == 'D':
            ok = rest is None or re.match(r'^\S+$', rest) is not None
        elif cmd == 'R':
            ok = rest is not None and re.match(r'^\S+( \S+)?$', rest) is not None
        elif cmd in 'kKCM':
            ok = rest is not None and rest.startswith(':')
        elif cmd in 'oUuNI':
            ok = rest is not None and re.match(r'^\S+$', rest) is not None
        if ip.startswith(':'):
            ok = False
        return ParsedLine('client' if ok else 'bad', cmd, cid, ip, port, rest, None, None, 'malformed client message' if not ok else None)
    m = _re_x.match(line)
    if m:
        return ParsedLine('x', 'X', None, None, None, None, m.group(1), m.group(2), m.group(3))
    for r in _re_global:
        if r.match(line):
            return ParsedLine('global', line[0], None, None, None, None, None, None, None)
    return ParsedLine('bad', None, None, None, None, None, None, None, 'not an IAuth message')


def parse_tag(tag):
    m = re.match(r'^([0-9a-f]+)_([0-9a-f]+)$', tag)
    if not m:
        return None
    i = int(m.group(1), 16)
    if i >= 0x80000000:
        i -= 0x100000000
    return i, int(m.group(2), 16)


def same_address(text, announced):
    """Does the address text denote the announced address?  Independent parser: Python ipaddress."""
    def norm(t):
        a = ipaddress.ip_address(t)
        if isinstance(a, ipaddress.IPv4Address):
            return ipaddress.IPv6Address('::ffff:' + t)
        b = a.packed
        if b[:12] == b'\0' * 12 and b[12:] not in (b'\0\0\0\0', b'\0\0\0\1'):
            # IPv4-compatible canonicalises to IPv4-mapped
            return ipaddress.IPv6Address(b'\0' * 10 + b'\xff\xff' + b[12:])
        return a
    try:
        return norm(text) == norm(announced)
    except ValueError:
        return False


# ---- reference: mode prefix parser (from the xquery module's header comment) -----------------------
def parse_password(text):
    """-> (wellformed, set_modes, clear_modes, credentials) for '<modes> <account> <password>' where
    <modes> matches ([+-][x!]*)+ ."""
    m = re.match(r'^((?:[+-][x!]*)+) +(.*)$', text)
    if not m:
        return False, set(), set(), None
    modes, rest = m.group(1), m.group(2)
    if ' ' not in rest:
        return False, set(), set(), None
    on, off, sign = set(), set(), None
    for ch in modes:
        if ch in '+-':
            sign = ch
        elif sign == '+':
            on.add(ch); off.discard(ch)
        else:
            off.add(ch); on.discard(ch)
    return True, on, off, rest


# ---- reference: class rules (from the class module's header comment + property C11) ----------------
def glob_match(pat, s):
    return fnmatch.fnmatchcase(s, pat)


def mask_match(addr_text, mask_text):
    """address criterion: CIDR / wildcard masks in the documented syntax."""
    try:
        a = ipaddress.ip_address(addr_text)
    except ValueError:
        return False
    a6 = int(ipaddress.IPv6Address('::ffff:' + addr_text)) if a.version == 4 else int(a)
    m = mask_text
    bits = None
    if m.strip('*') == '' and m:
        return True
    if m.endswith('*'):
        body = m.rstrip('*')
        if body.endswith('.'):
            octs = body[:-1].split('.')
            net = 0
            for o in octs:
                net = (net << 8) | int(o)
            net <<= 8 * (4 - len(octs))
            bits = 96 + 8 * len(octs)
            n6 = (0xffff << 32) | net
        else:
            groups = body[:-1].split(':')
            n6 = 0
            for g in groups:
                n6 = (n6 << 16) | int(g, 16)
            n6 <<= 16 * (8 - len(groups))
            bits = 16 * len(groups)
    else:
        if '/' in m:
            t, n = m.split('/')
            bits = int(n)
        else:
            t, bits = m, None
        na = ipaddress.ip_address(t)
        if na.version == 4:
            n6 = (0xffff << 32) | int(na)
            bits = 128 if bits is None else bits + 96
        else:
            n6 = int(na)
            bits = 128 if bits is None else bits
    if bits == 0:
        return True
    sh = 128 - bits
    return (a6 >> sh) == (n6 >> sh)


def class_reference(rules, attrs):
    """rules: sequence of (name, dict); attrs: dict(account, addr, ident, host, ok_services:set).
    -> (class or None, trust: bool)"""
    for name, kv in sorted(rules, key=lambda r: r[0].lower()):
        if 'account' in kv:
            acct = attrs.get('account') or ''
            if not glob_match(kv['account'], acct.split(':')[0]):
                continue
        if 'address' in kv and not mask_match(attrs['addr'], kv['address']):
            continue
        if 'username' in kv and not glob_match(kv['username'], attrs.get('ident') or ''):
            continue
        if 'hostname' in kv and not glob_match(kv['hostname'], attrs.get('host') or ''):
            continue
        if 'xreply_ok' in kv and kv['xreply_ok'].lower() not in {s.lower() for s in attrs.get('ok_services', ())}:
            continue
        return (kv.get('class') or name), kv.get('trust_username') in ('1', 'true', 'on', 'enabled', 'yes')
    return None, False


# ---- the observer ---------------------------------------------------------------------------------
# per-instance record (all hashable)
Inst = namedtuple('Inst', 'softdone have hurry owed expired modes creds stamp vouched xvouched msent '
                          'refused pcount more_pending queried oksvc alt requery okfirm')


def caddr(c, inst):
    """(address, port) the server announced for this instance."""
    if inst is not None and inst.alt == 'port':
        return c['addr'], c['port2']
    if inst is not None and inst.alt:
        return c['addr2'], c['port2']
    return c['addr'], c['port']


def fresh_inst():
    return Inst(False, frozenset(), False, frozenset(), False, frozenset(), None, False, frozenset(), False,
                False, False, 0, frozenset(), frozenset(), frozenset(), False, frozenset(), frozenset())


class World:
    """Static facts of one search: configured services, rule table, policy letters, timeout."""

    def __init__(self, services, rules, banner, timeout, pbudget=3, dynamic=False, all_types=None):
        self.services = list(services)            # [(name, type)] in config order
        self.stype = dict(services)
        self.dynamic = dynamic                    # one of several service tables a search reloads between
        self.all_types = dict(all_types or services)   # protocol of every service any of those tables names (a removed service may still owe a reply)
        self.rules = list(rules)
        self.timeout = timeout
        self.pbudget = pbudget
        pol = ''
        for l in banner:
            if l.startswith('O '):
                pol = l[2:]
        self.need = {'host'}
        if 'A' in pol:
            self.need.add('userinfo')
        if 'U' in pol:
            self.need |= {'nick', 'ident'}
        self.policy = pol


def ident_known(have):
    return 'u' in have or ('u0' in have and 'U' in have)


def have_items(have):
    s = set()
    if 'N' in have or 'd' in have:
        s.add('host')
    if 'n' in have:
        s.add('nick')
    if 'U' in have:
        s.add('userinfo')
    if ident_known(have):
        s.add('ident')
    return s


def data_complete(w, inst):
    return inst.hurry or w.need <= have_items(inst.have)


def nothing_pending(w, inst):
    return (not inst.owed) or inst.expired


def bang_unmet(inst):
    return '!' in inst.modes and not inst.stamp


def expected_user(c, inst):
    if 'u' in inst.have:
        return c['ident'][:10]
    if 'U' in inst.have:
        u = c['user']
        return (u if u.startswith('~') else '~' + u)[:10]
    return ''


def ready(w, stype, inst):
    """Is the data the protocol needs known (property C06)?"""
    hv = have_items(inst.have)
    if stype == 'login':
        return inst.creds is not None
    if stype == 'login-ipr':
        return inst.creds is not None and (inst.hurry or {'host', 'ident'} <= hv)
    return inst.hurry or {'host', 'ident', 'nick', 'userinfo'} <= hv


def expected_queries(w, i, svc, inst, kind):
    """Reference rendering of the query text(s) for service svc (kind: 'first'|'relogin')."""
    c = CLIENTS[i]
    st = w.stype[svc]
    addr = caddr(c, inst)[0]
    host = c['host'][:63] if 'N' in inst.have else addr
    user = expected_user(c, inst)
    nick = c['nick'][:30] if 'n' in inst.have else ''
    real = c['real'][:50] if 'U' in inst.have else ''
    out = []
    if st in ('dronecheck', 'combined'):
        out.append('CHECK %s %s %s %s :%s' % (nick, user, addr, host, real))
    if inst.creds is not None:
        if st in ('login', 'combined'):
            out.append('LOGIN %s' % inst.creds)
        elif st == 'login-ipr':
            out.append('LOGIN2 %s %s %s %s' % (addr, host, user, inst.creds))
    return out


def step(w, M, ev, ctx_pre, new_serial, out_lines, addr_check=True):
    """One transition of the observer.
    M: tuple of (id, Inst or None) sorted by id;  ev: symbolic event;  ctx_pre: {'cur':{}, 'old':{}} before the
    event; new_serial: serial a well-formed announcement in this step receives; out_lines: lines written to
    the server channel by this step.
    Returns (M', violations [(tag, text)], witnesses set)."""
    V, W = [], set()
    st = dict(M)
    serials = dict(ctx_pre['cur'])    # serial of each live instance (kept out of the observer state: see DESIGN 4.2)
    k = ev[0]
    i = ev[1] if len(ev) > 1 and isinstance(ev[1], int) else None
    inst = st.get(i) if i is not None else None
    expect = []          # expectations on this step's output: (tag, predicate description, fn(lines)->bool)
    stray = False
    reply_for = None
    ready_before = {}
    if i is not None and inst is not None:
        ready_before = {s: ready(w, t, inst) for s, t in w.services}

    # ---- input effects ------------------------------------------------------------------------
    if k in ('C', 'C2', 'C3'):
        altv = {'C': False, 'C2': True, 'C3': 'port'}[k]
        if inst is not None:
            W.add('reannounce-live')
            if inst.alt != altv:
                W.add('reannounce-other-address')
        inst = fresh_inst()._replace(alt=altv)
        serials[i] = new_serial
        st[i] = inst
        ready_before = {s: False for s, t in w.services}
    elif k in ('D', 'T'):
        if inst is not None:
            W.add('withdraw-live' if k == 'D' else 'registered-live')
            if inst.owed:
                W.add('withdraw-while-owed')
        st[i] = None
        inst = None
    elif k in ('N', 'd', 'u', 'u0', 'n', 'U') and inst is not None:
        key = k
        if k == 'N' and ('N' in inst.have):
            pass
        inst = inst._replace(have=inst.have | {key})
    elif k == 'H' and inst is not None:
        inst = inst._replace(hurry=True)
    elif k == 'TO' and inst is not None:
        inst = inst._replace(expired=True)
        W.add('timeout-fired')
        if inst.owed:
            W.add('timeout-while-owed')
    elif k == 'P' and inst is not None:
        text, _wf = PASSWORDS[ev[2]]
        inst = inst._replace(pcount=inst.pcount + 1)
        if inst.more_pending and inst.creds is not None:
            # answer to a challenge: relayed to the challenging services as "MORE <text>"
            W.add('challenge-answer')
            pend = inst.more_pending
            for s in sorted(pend):
                if w.dynamic and s not in w.stype:
                    continue        # the challenger has left the table since: the statement does not say where the answer goes
                expect.append(('C06.challenge-answer', 'X %s <tag> :MORE %s' % (s, text),
                               (lambda lines, s=s, text=text: any(p.kind == 'x' and p.svc == s and p.text == 'MORE ' + text for p in lines))))
            inst = inst._replace(more_pending=frozenset())
        else:
            wf, on, off, creds = parse_password(text)
            if wf:
                inst = inst._replace(modes=frozenset((inst.modes - off) | on), creds=creds)
                W.add('password-wellformed')
                if '!' in on:
                    W.add('password-bang')
            else:
                W.add('password-malformed')
                expect.append(('C06.malformed-forwarded', 'no query in the step of a password lacking the shape',
                               lambda lines: not any(p.kind == 'x' for p in lines)))
    elif k == 'X':
        _, i, svc, tagkind, rk = ev
        awaited = (tagkind == 'cur' and inst is not None and svc in inst.owed)
        if not awaited:
            stray = True
            W.add('stray-' + ('old' if tagkind == 'old' else 'malformed' if tagkind != 'cur' else ('ghost' if svc not in w.stype else 'notowed')))
        elif rk.startswith('BLAH'):
            # unrecognised text from an awaited service: not a final answer; the statement is silent about output
            W.add('reply-unrecognised')
        else:
            reply_for = (svc, rk)
            W.add('reply-' + rk)
            stype = w.stype.get(svc) or w.all_types.get(svc, 'login')
            inst = inst._replace(owed=inst.owed - {svc})
            if inst.expired:
                W.add('reply-after-timeout')
            c = CLIENTS[i]
            if rk in ('OK', 'OKE') or rk in ACCOUNT_KINDS:
                inst = inst._replace(oksvc=inst.oksvc | {svc}, okfirm=(inst.okfirm | {svc}) if svc in w.stype else inst.okfirm)
            if rk in ACCOUNT_KINDS:
                if stype in LOGIN_TYPES:
                    acct = vouched_account(rk, i, svc)
                    if inst.stamp:
                        W.add('second-stamp')
                    inst = inst._replace(stamp=True, vouched=inst.vouched | {acct},
                                         xvouched=inst.xvouched or ('x' in inst.modes))
                else:
                    W.add('dronecheck-offers-account')
            elif rk in ('NO', 'NOB'):
                inst = inst._replace(refused=True)
                text = reply_text(rk, i, svc)[3:]
                expect.append(('C05.refusal-text', 'k %d %s %d :%s' % (i, c['addr'], c['port'], text),
                               lambda lines, i=i, text=text: any(p.kind == 'client' and p.cmd == 'k' and p.id == i and p.rest == ':' + text for p in lines)))
            elif rk in ('AGAIN', 'MORE'):
                text = reply_text(rk, i, svc)[len(rk) + 1:]
                expect.append(('C05.relay-text', 'exactly one C %d ... :%s' % (i, text),
                               lambda lines, i=i, text=text: sum(1 for p in lines if p.kind == 'client' and p.cmd == 'C' and p.id == i and p.rest == ':' + text) == 1
                               and not any(p.kind == 'client' and p.cmd == 'C' and (p.id != i or p.rest != ':' + text) for p in lines)))
                if rk == 'MORE':
                    inst = inst._replace(more_pending=inst.more_pending | {svc})
    if i is not None and k not in ('D', 'T'):
        st[i] = inst

    # ---- outputs, in order ----------------------------------------------------------------------
    parsed = []
    queried_before = {j: (x.queried if x is not None else frozenset()) for j, x in st.items()}   # two lines of one query (CHECK + LOGIN) are one asking
    for line in out_lines:
        p = parse_line(line)
        parsed.append(p)
        if p.kind == 'bad':
            V.append(('C09.malformed-line', 'line %r is not a valid IAuth message (%s)' % (line, p.text)))
            continue
        if p.kind == 'client':
            j = p.id
            cur = st.get(j)
            if j not in CLIENTS:
                V.append(('C01.unknown-id', 'line %r names an id that was never announced' % line))
                continue
            cj = CLIENTS[j]
            if cur is None:
                if p.cmd in 'DRkK':
                    V.append(('C01.verdict-not-live', 'verdict %r for an id that is not live (unannounced, withdrawn or already decided)' % line))
                else:
                    V.append(('C01.line-after-end', 'line %r names client %d which is not live' % (line, j)))
                continue
            wa, wp = caddr(cj, cur)
            if p.port != wp or (addr_check and not same_address(p.ip, wa)):
                V.append(('C09.wrong-address', 'line %r does not carry the announced address/port %s %d' % (line, wa, wp)))
            if i is not None and j != i:
                V.append(('C07.cross-client', 'event %s produced %r naming another client' % (ev_str(ev), line)))
            if p.cmd == 'd':
                if cur.softdone:
                    V.append(('C01.second-softdone', 'second soft-done for one instance: %r' % line))
                st[j] = cur._replace(softdone=True)
                W.add('soft-done')
            elif p.cmd == 'M':
                if p.rest == ':+x':
                    st[j] = cur._replace(msent=True)
                    W.add('mode-x-sent')
            elif p.cmd in 'DR':
                W.add('accept-R' if p.cmd == 'R' else 'accept-D')
                # ---- C02: no premature acceptance
                if not data_complete(w, cur):
                    V.append(('C02.data-incomplete', 'accepted (%r) before all requested data arrived: have %s need %s' % (line, sorted(have_items(cur.have)), sorted(w.need))))
                if not nothing_pending(w, cur):
                    V.append(('C02.query-unanswered', 'accepted (%r) while %s still owe an answer and the timeout has not expired' % (line, sorted(cur.owed))))
                if bang_unmet(cur):
                    V.append(('C02.bang-without-stamp', 'accepted (%r) although the client demanded +! and holds no account stamp' % line))
                if cur.refused:
                    V.append(('C02.refused-accepted', 'accepted (%r) although a service refused the client' % line))
                if cur.expired and cur.owed:
                    W.add('accept-forced-by-timeout')
                # ---- C05: content
                f = (p.rest or '').split(' ')
                acct = f[0] if p.cmd == 'R' else None
                cls = (f[1] if len(f) > 1 else None) if p.cmd == 'R' else (f[0] if p.rest else None)
                if p.cmd == 'R' and not cur.stamp:
                    V.append(('C05.stamp-not-vouched', 'accepted with account %r although no awaited login-type service vouched one for this instance' % acct))
                elif p.cmd == 'D' and cur.stamp:
                    V.append(('C05.stamp-lost', 'accepted without account although %s was vouched' % sorted(cur.vouched)))
                elif p.cmd == 'R' and acct not in cur.vouched:
                    V.append(('C05.wrong-account', 'accepted with account %r, vouched were %s' % (acct, sorted(cur.vouched))))
                if p.cmd == 'R' and cur.stamp and cur.xvouched and not cur.msent:
                    V.append(('C05.no-plus-x', 'client asked for +x and was stamped, but no M +x was sent before %r' % line))
                want_cls, _tr = class_reference(w.rules, dict(
                    account=acct, addr=caddr(cj, cur)[0], ident=(cj['ident'][:10] if 'u' in cur.have else ''),
                    host=(cj['host'][:63] if 'N' in cur.have else ''), ok_services=cur.oksvc))
                alt_cls = {want_cls}
                if w.dynamic and cur.oksvc != cur.okfirm:
                    # an OK from a service (incarnation) that has since left the table, or had left it when it answered: the statement does not say whether
                    # a rule naming that service still counts - every reading between "none of them" and "all of them" is accepted
                    loose = sorted(cur.oksvc - cur.okfirm)
                    for m in range(1 << len(loose)):
                        sub = cur.okfirm | {x for b, x in enumerate(loose) if m >> b & 1}
                        alt_cls.add(class_reference(w.rules, dict(
                            account=acct, addr=caddr(cj, cur)[0], ident=(cj['ident'][:10] if 'u' in cur.have else ''),
                            host=(cj['host'][:63] if 'N' in cur.have else ''), ok_services=sub))[0])
                if cls not in alt_cls:
                    V.append(('C05.wrong-class', 'accepted with class %r, the rules give %r (%r)' % (cls, want_cls, line)))
                if cls:
                    W.add('accept-with-class')
                st[j] = None
            elif p.cmd in 'kK':
                W.add('reject')
                if not (reply_for and reply_for[1] in ('NO', 'NOB') and j == i):
                    V.append(('C05.unexplained-reject', 'client rejected (%r) without a refusal from an awaited service in this step' % line))
                st[j] = None
            elif p.cmd == 'C':
                if not (reply_for and reply_for[1] in ('AGAIN', 'MORE', 'UNL') and j == i):
                    V.append(('C05.unexplained-challenge', 'challenge %r without a MORE/AGAIN/unlinked reply for this client in this step' % line))
        elif p.kind == 'x':
            t = parse_tag(p.tag)
            if t is None:
                V.append(('C09.malformed-line', 'query %r carries a malformed routing tag' % line))
                continue
            j, ser = t
            cur = st.get(j)
            if cur is None or serials.get(j) != ser:
                V.append(('C01.query-for-departed', 'query %r carries the tag of a client instance that is not live' % line))
                continue
            if i is not None and j != i:
                V.append(('C07.cross-client', 'event %s produced query %r for another client' % (ev_str(ev), line)))
            if p.svc not in w.stype and not (p.text.startswith('MORE ') and p.svc in w.all_types):
                # not in the table in force (the one the search started with, or the last one reloaded): judged by C06 only; the debt is real either way
                # (the answer to a challenge still goes to the service that asked, configured or not)
                V.append(('C06.unknown-service', 'query %r to a service that is not configured' % line))
                st[j] = cur._replace(owed=cur.owed | {p.svc}, queried=cur.queried | {p.svc})
                continue
            stype = w.stype.get(p.svc) or w.all_types[p.svc]
            W.add('query-' + p.text.split(' ')[0])
            if p.text.startswith('MORE '):
                pass  # checked by the challenge-answer expectation
            else:
                if not ready(w, stype, cur):
                    V.append(('C06.query-early', 'query %r sent before the data protocol %s needs is known' % (line, stype)))
                wantl = expected_queries(w, j, p.svc, cur, 'first')
                if p.text not in wantl:
                    V.append(('C06.query-content', 'query %r differs from the client\'s own data, expected one of %r' % (line, wantl)))
                if p.svc in queried_before.get(j, ()) and k != 'P' and p.svc not in cur.requery:
                    V.append(('C06.query-repeated', 'service %s asked again (%r) on a non-password event' % (p.svc, line)))
                if p.svc in queried_before.get(j, ()) and stype == 'dronecheck' and p.svc not in cur.requery:
                    V.append(('C06.query-repeated', 'dronecheck service %s asked twice (%r)' % (p.svc, line)))
            st[j] = cur._replace(owed=cur.owed | {p.svc}, queried=cur.queried | {p.svc}, requery=cur.requery - {p.svc})

    # ---- step-level expectations ----------------------------------------------------------------
    for tag, desc, fn in expect:
        if not fn(parsed):
            V.append((tag, 'after %s the step should contain %s; got %r' % (ev_str(ev), desc, out_lines)))
    if stray and out_lines:
        V.append(('C04.stray-output', 'stray reply %s produced output %r' % (ev_str(ev), out_lines)))
    if k == 'X' and not stray and reply_for is None and False:
        pass
    # ---- C06: not skipped -------------------------------------------------------------------------
    if i is not None and k not in ('D', 'T', 'X', 'TO'):
        cur = st.get(i)
        if cur is not None:
            for s, t in w.services:
                if not ready_before.get(s, False) and ready(w, t, cur) and s not in cur.queried:
                    V.append(('C06.query-skipped', 'after %s the data protocol %s needs is known but service %s was not queried' % (ev_str(ev), t, s)))
                elif w.dynamic and k in ('N', 'd', 'u', 'u0', 'n', 'U', 'H') and ready(w, t, cur) and s not in cur.queried:
                    # a service a reload brought in while the client waits: the data it needs is known, so the next data event must not pass it over
                    V.append(('C06.query-skipped', 'after %s service %s (added by a reload) is configured and the data protocol %s needs is known, yet it has never been queried about this client'
                              % (ev_str(ev), s, t)))
                if k == 'P' and t in ('login', 'login-ipr') and ready(w, t, cur) and ready_before.get(s, False) \
                        and PASSWORDS[ev[2]][1] and not any(p.kind == 'x' and p.svc == s for p in parsed) and not (M_get(M, i).more_pending if M_get(M, i) else False):
                    V.append(('C06.relogin-skipped', 'a new well-formed password did not produce a query to %s' % s))
    # ---- C03: no stuck clients ------------------------------------------------------------------
    for j, cur in st.items():
        if cur is None:
            continue
        if data_complete(w, cur) and nothing_pending(w, cur) and not bang_unmet(cur):
            V.append(('C03.stuck-after-timeout' if cur.owed else 'C03.stuck-all-answered', 'client %d has all data%s, %s and no unmet +! requirement, yet no verdict was issued by the step %s'
                      % (j, ' (hurry-up)' if cur.hurry else '', 'an expired timeout' if cur.owed else 'every query answered', ev_str(ev))))
    Mn = tuple(sorted(st.items()))
    return Mn, V, W


def reload_step(M, w_old, w_new):
    """Observer effect of a successful reload from table w_old to w_new: a service that left the table may be asked again once it returns."""
    gone = set(w_old.stype) - set(w_new.stype)
    if not gone:
        return M
    return tuple((i, (inst._replace(requery=inst.requery | (gone & inst.queried), okfirm=inst.okfirm - gone) if inst is not None else None)) for i, inst in M)


def M_get(M, i):
    for j, inst in M:
        if j == i:
            return inst
    return None


def initial_M(ids):
    return tuple((i, None) for i in sorted(ids))
